// Package sched is the cooperative scheduler and stateless DFS explorer. Logical threads only
// make progress when released by the driver; after each release the driver waits for quiescence
// (testing/synctest.Wait: every goroutine of the bubble durably blocked), reads the enabled set in
// canonical order (the thread that ran last first, then ascending ids) and takes the next choice.
// An execution is identified by its choice sequence; replaying a prefix that meets an
// out-of-range choice is a hard error.
package sched

import (
	"fmt"
	"runtime"
	"sort"
	"strings"
	"sync"
	"testing"
	"testing/synctest"
	"time"
)

// PointRec is one scheduling decision.
type PointRec struct {
	Enabled []int    // thread ids in canonical order
	Labels  []string // what each enabled thread is about to do
	Chosen  int      // index into Enabled
	Running int      // thread that ran last (-1 at the start)
	RunEn   bool     // the thread that ran last is still enabled
}

type park struct {
	tid     int
	label   string
	enabled func() bool
	ch      chan struct{}
}

// Sched controls one execution.
type Sched struct {
	mu      sync.Mutex
	parked  map[int]*park
	started map[int]bool
	done    map[int]bool
	nthr    int
	current int
	prefix  []int
	Trace   []PointRec
	poison  bool
	// Deadlock is set when unfinished threads exist but none is enabled.
	Deadlock     bool
	DeadlockInfo string
	// Diverged is set when a replayed choice is out of range.
	Diverged string
	// Events is a log threads may append to (only one thread runs at a time).
	Events []string
	// StopAfter aborts the execution after this many decisions (0 = no limit): a horizon for
	// code that never goes quiescent.
	StopAfter int
	Horizon   bool
	// Time as an event. TimerPending reports whether anything in the code under test waits for time
	// to pass (armed timers); when it does, "advance-time" is one more alternative of a decision
	// (thread id AdvanceID, listed last, at most MaxAdvances times per execution): the driver sleeps
	// AdvanceStep of virtual time, which fires the timers due, and goes on. When no thread is enabled
	// and timers are armed, time is advanced without it being a choice.
	TimerPending func() bool
	AdvanceStep  time.Duration
	MaxAdvances  int
	advances     int
	forced       int
	// Resolve, if set, names the logical thread on whose behalf the calling goroutine runs (-1:
	// unknown, the thread released last is assumed). Needed once time can wake a thread other than
	// the one released last.
	Resolve func() int
	// OnDecision, if set, is consulted before each decision with the canonical enabled list; it
	// may return true to stop the execution (state-key pruning).
	OnDecision func(s *Sched, enabled []int) bool
	Pruned     bool
}

// New makes a scheduler that will replay prefix and then always take choice 0.
func New(prefix []int) *Sched {
	return &Sched{parked: map[int]*park{}, started: map[int]bool{}, done: map[int]bool{}, current: -1, prefix: prefix}
}

// Go registers logical thread tid. Its body starts parked.
func (s *Sched) Go(tid int, body func()) {
	s.mu.Lock()
	s.nthr++
	s.mu.Unlock()
	go func() {
		defer func() {
			s.mu.Lock()
			s.done[tid] = true
			s.mu.Unlock()
		}()
		s.park(tid, "start", nil)
		body()
	}()
}

func (s *Sched) park(tid int, label string, enabled func() bool) {
	s.mu.Lock()
	if s.poison {
		s.mu.Unlock()
		runtime.Goexit()
	}
	p := &park{tid: tid, label: label, enabled: enabled, ch: make(chan struct{})}
	s.parked[tid] = p
	s.mu.Unlock()
	<-p.ch
	s.mu.Lock()
	po := s.poison
	s.mu.Unlock()
	if po {
		runtime.Goexit()
	}
}

// Point is a scheduling point of the thread that is currently running. enabled may be nil
// (always enabled); it is evaluated by the driver at quiescence.
func (s *Sched) Point(label string, enabled func() bool) {
	tid := s.Who()
	if tid < 0 {
		return
	}
	s.park(tid, label, enabled)
}

// PointFor is Point for a known thread.
func (s *Sched) PointFor(tid int, label string, enabled func() bool) {
	if tid < 0 {
		s.Point(label, enabled)
		return
	}
	s.park(tid, label, enabled)
}

// Who names the logical thread the calling goroutine works for.
func (s *Sched) Who() int {
	// until time has passed for the first time, only the thread released last can be running
	if s.Resolve != nil && s.timePassed() {
		if t := s.Resolve(); t >= 0 {
			return t
		}
	}
	s.mu.Lock()
	defer s.mu.Unlock()
	return s.current
}

func (s *Sched) timePassed() bool {
	s.mu.Lock()
	defer s.mu.Unlock()
	return s.advances+s.forced > 0
}

// AdvanceID is the pseudo thread id of the "let time pass" alternative.
const AdvanceID = -7

// Current returns the id of the running thread.
func (s *Sched) Current() int { s.mu.Lock(); defer s.mu.Unlock(); return s.current }

// Poisoned reports whether the execution is being torn down.
func (s *Sched) Poisoned() bool { s.mu.Lock(); defer s.mu.Unlock(); return s.poison }

// Log appends an event.
func (s *Sched) Log(f string, a ...interface{}) {
	s.mu.Lock()
	s.Events = append(s.Events, fmt.Sprintf(f, a...))
	s.mu.Unlock()
}

// Run drives the execution to completion. Must be called inside a synctest bubble, from the
// bubble's main goroutine, after all Go calls.
func (s *Sched) Run() {
	for {
		synctest.Wait()
		s.mu.Lock()
		alldone := len(s.done) == s.nthr
		var ids []int
		for tid, p := range s.parked {
			if p.enabled == nil || p.enabled() {
				ids = append(ids, tid)
			}
		}
		if len(ids) == 0 && !alldone && s.TimerPending != nil && s.TimerPending() && s.forced < 16 {
			// everybody waits, and something waits for time: let it pass
			s.forced++
			s.mu.Unlock()
			time.Sleep(s.step())
			continue
		}
		if len(ids) == 0 {
			if !alldone {
				s.Deadlock = true
				var w []string
				for tid, p := range s.parked {
					w = append(w, fmt.Sprintf("T%d at %q", tid, p.label))
				}
				sort.Strings(w)
				s.DeadlockInfo = fmt.Sprintf("%d of %d threads finished; parked: %s", len(s.done), s.nthr, strings.Join(w, ", "))
				s.teardownLocked()
				s.mu.Unlock()
				synctest.Wait()
				return
			}
			s.mu.Unlock()
			return
		}
		sort.Ints(ids)
		// canonical order: running thread first if still enabled
		runEn := false
		for i, t := range ids {
			if t == s.current {
				runEn = true
				copy(ids[1:i+1], ids[:i])
				ids[0] = t
				break
			}
		}
		if s.StopAfter > 0 && len(s.Trace) >= s.StopAfter {
			s.Horizon = true
			s.teardownLocked()
			s.mu.Unlock()
			synctest.Wait()
			return
		}
		if s.OnDecision != nil {
			s.mu.Unlock()
			stop := s.OnDecision(s, ids)
			s.mu.Lock()
			if stop {
				s.Pruned = true
				s.teardownLocked()
				s.mu.Unlock()
				synctest.Wait()
				return
			}
		}
		if s.MaxAdvances > s.advances && s.TimerPending != nil && s.TimerPending() {
			ids = append(ids, AdvanceID)
		}
		choice := 0
		if len(s.Trace) < len(s.prefix) {
			choice = s.prefix[len(s.Trace)]
			if choice >= len(ids) {
				s.Diverged = fmt.Sprintf("decision %d: replayed choice %d but only %d threads are enabled", len(s.Trace), choice, len(ids))
				s.teardownLocked()
				s.mu.Unlock()
				synctest.Wait()
				return
			}
		}
		labels := make([]string, len(ids))
		for i, t := range ids {
			if t == AdvanceID {
				labels[i] = "advance-time"
				continue
			}
			labels[i] = s.parked[t].label
		}
		s.Trace = append(s.Trace, PointRec{Enabled: ids, Labels: labels, Chosen: choice, Running: s.current, RunEn: runEn})
		t := ids[choice]
		if t == AdvanceID {
			s.advances++
			s.mu.Unlock()
			time.Sleep(s.step())
			continue
		}
		p := s.parked[t]
		delete(s.parked, t)
		s.current = t
		s.mu.Unlock()
		close(p.ch)
	}
}

func (s *Sched) step() time.Duration {
	if s.AdvanceStep > 0 {
		return s.AdvanceStep
	}
	return time.Second
}

func (s *Sched) teardownLocked() {
	s.poison = true
	for tid, p := range s.parked {
		delete(s.parked, tid)
		close(p.ch)
	}
}

// Choices returns the choice sequence of the execution.
func (s *Sched) Choices() []int {
	out := make([]int, len(s.Trace))
	for i, p := range s.Trace {
		out[i] = p.Chosen
	}
	return out
}

// Preemptions counts switches away from a thread that was still enabled.
func (s *Sched) Preemptions() int {
	n := 0
	for _, p := range s.Trace {
		if p.RunEn && p.Chosen != 0 {
			n++
		}
	}
	return n
}

// Describe renders the schedule for humans.
func (s *Sched) Describe() string {
	var sb strings.Builder
	for i, p := range s.Trace {
		fmt.Fprintf(&sb, "%d:T%d(%s) ", i, p.Enabled[p.Chosen], p.Labels[p.Chosen])
	}
	return sb.String()
}

// Bubble runs f inside a fresh synctest bubble. Goroutines left blocked when f returns make
// synctest panic; that panic is caught and reported as leaked=true (the goroutines stay parked).
func Bubble(t *testing.T, f func()) (leaked bool, other interface{}) {
	defer func() {
		if r := recover(); r != nil {
			if s, ok := r.(string); ok && strings.Contains(s, "blocked goroutines remain") {
				leaked = true
				return
			}
			if e, ok := r.(error); ok && strings.Contains(e.Error(), "blocked goroutines remain") {
				leaked = true
				return
			}
			if strings.Contains(fmt.Sprint(r), "blocked goroutines remain") {
				leaked = true
				return
			}
			other = r
		}
	}()
	synctest.Test(t, func(t *testing.T) { f() })
	return
}

// Explore enumerates all executions of the program built by setup with at most `bound`
// preemptions (bound < 0: unbounded). run must build a fresh instance, register threads on the
// scheduler it is given, call s.Run() and return. visit sees every completed execution and
// returns false to stop. Returns executions run and whether the space was exhausted.
type Explorer struct {
	Bound     int
	MaxExecs  int
	Execs     int
	Truncated bool
	Expired   func() bool
}

func (e *Explorer) Explore(run func(prefix []int) *Sched, visit func(s *Sched) bool) {
	var rec func(prefix []int) bool
	rec = func(prefix []int) bool {
		if e.MaxExecs > 0 && e.Execs >= e.MaxExecs || e.Expired != nil && e.Expired() {
			e.Truncated = true
			return false
		}
		s := run(prefix)
		e.Execs++
		if !visit(s) {
			return false
		}
		if s.Diverged != "" {
			return true
		}
		pre := 0
		for i, p := range s.Trace {
			if i >= len(prefix) {
				for alt := 1; alt < len(p.Enabled); alt++ {
					cost := pre
					if p.RunEn {
						cost++
					}
					if e.Bound >= 0 && cost > e.Bound {
						continue
					}
					np := make([]int, i+1)
					for j := 0; j < i; j++ {
						np[j] = s.Trace[j].Chosen
					}
					np[i] = alt
					if !rec(np) {
						return false
					}
				}
			}
			if p.RunEn && p.Chosen != 0 {
				pre++
			}
		}
		return true
	}
	rec(nil)
}
