// Command overlaygen writes the go build overlay the harnesses are compiled with. Everything is
// derived from the *current* sources under -repo; nothing is written into the repository.
//
//   - import rewrites (e.g. "sync" -> rend/verifshim/vsync) in listed files, done on the AST
//   - shim packages injected as virtual packages inside the rend module path
//   - a renamed copy of the portable lzcnt next to the assembly one
//
// It fails loudly when a file, import or function it is asked to rewrite does not exist, so a
// refactor cannot silently switch a hook off.
package main

import (
	"encoding/json"
	"flag"
	"fmt"
	"go/ast"
	"go/parser"
	"go/printer"
	"go/token"
	"os"
	"path/filepath"
	"strconv"
	"strings"
)

const modPath = "github.com/netflix/rend"

type rewrite struct {
	file    string            // path relative to repo
	imports map[string]string // old import path -> new import path
}

var rewrites = []rewrite{
	{"handlers/inmem/inmem.go", map[string]string{"sync": modPath + "/verifshim/vsync"}},
	{"metrics/counters.go", map[string]string{"sync/atomic": modPath + "/verifshim/vatomic"}},
	{"metrics/verif_export.go", map[string]string{"sync/atomic": modPath + "/verifshim/vatomic"}},
	{"metrics/histograms.go", map[string]string{"sync": modPath + "/verifshim/vsync", "sync/atomic": modPath + "/verifshim/vatomic"}},
	{"metrics/endpoint.go", map[string]string{"sync": modPath + "/verifshim/vsync"}},
	{"protocol/binprot/headers.go", map[string]string{"sync": modPath + "/verifshim/vsync"}},
	{"handlers/memcached/batched/conn.go", map[string]string{"net": modPath + "/verifshim/vnet", "math/rand": modPath + "/verifshim/vrand"}},
	{"handlers/memcached/batched/handler.go", map[string]string{"math/rand": modPath + "/verifshim/vrand"}},
	{"handlers/memcached/batched/relay.go", map[string]string{"math/rand": modPath + "/verifshim/vrand"}},
	{"handlers/memcached/cluster/handler.go", map[string]string{"net": modPath + "/verifshim/vnet"}},
	{"handlers/memcached/batched/types.go", map[string]string{"crypto/rand": modPath + "/verifshim/vcrand"}},
	// the real deployment path (main programs -> listeners -> handler constructors) over in-memory sockets
	{"server/listen.go", map[string]string{"net": modPath + "/verifshim/vnet"}},
	{"handlers/memcached/constructors.go", map[string]string{"net": modPath + "/verifshim/vnet"}},
}

// mainPrograms are rend's main packages, copied (never edited) into importable virtual packages:
// init functions become VerifInit<n>, main becomes VerifMain, and the process-level facilities
// (command line, signal handler, debug http endpoint, the final wait-for-ever) go through shims.
var mainPrograms = []struct{ file, pkg string }{
	{"app/memproxy.go", "memproxyapp"},
	{"app/memcached_cluster_proxy.go", "clusterproxyapp"},
}

var mainImports = map[string]string{
	"flag":      modPath + "/verifshim/vflag",
	"net/http":  modPath + "/verifshim/vhttp",
	"os/signal": modPath + "/verifshim/vsignal",
	"sync":      modPath + "/verifshim/vsync",
}

// shimPkgs are directories under -shim copied to <repo>/verifshim/<name>.
var shimPkgs = []string{"vsync", "vatomic", "vnet", "vrand", "vcrand", "vyield", "vflag", "vhttp", "vsignal", "vtime"}

// timeDirs: every non-test source file under these directories that imports "sync" gets it from
// the vsync shim (every lock can be hooked, every sync.Pool is tracked: double puts, use after put)
// and every one that imports "time" gets it from
// the vtime shim (same clock, plus a count of armed timers: the explorer offers "let time pass" as
// an event exactly when something is waiting for it). The list is built from the current sources,
// so a file that starts using timers is covered without anything being registered here.
var timeDirs = []string{"orcas", "server", "common", "protocol", "handlers/inmem", "handlers/memcached"}

func addTimeRewrites(repo string) {
	have := map[string]int{}
	for i, rw := range rewrites {
		have[rw.file] = i
	}
	for _, d := range timeDirs {
		filepath.Walk(filepath.Join(repo, d), func(path string, info os.FileInfo, err error) error {
			if err != nil || info.IsDir() || !strings.HasSuffix(path, ".go") || strings.HasSuffix(path, "_test.go") {
				return nil
			}
			f, perr := parser.ParseFile(token.NewFileSet(), path, nil, parser.ImportsOnly)
			if perr != nil {
				return nil // the compiler will say so
			}
			for _, im := range f.Imports {
				p, _ := strconv.Unquote(im.Path.Value)
				to := map[string]string{"time": modPath + "/verifshim/vtime", "sync": modPath + "/verifshim/vsync"}[p]
				if to == "" {
					continue
				}
				rel, _ := filepath.Rel(repo, path)
				if i, ok := have[rel]; ok {
					rewrites[i].imports[p] = to
				} else {
					have[rel] = len(rewrites)
					rewrites = append(rewrites, rewrite{rel, map[string]string{p: to}})
				}
			}
			return nil
		})
	}
}

func die(f string, a ...interface{}) {
	fmt.Fprintf(os.Stderr, "overlaygen: "+f+"\n", a...)
	os.Exit(1)
}

func main() {
	repo := flag.String("repo", "/repo", "repository root")
	shim := flag.String("shim", "", "directory with shim package sources")
	work := flag.String("work", "", "directory for generated files")
	out := flag.String("out", "", "overlay json to write")
	flag.Parse()
	if err := os.MkdirAll(*work, 0o755); err != nil {
		die("%v", err)
	}
	replace := map[string]string{}
	addTimeRewrites(*repo)
	for _, rw := range rewrites {
		src := filepath.Join(*repo, rw.file)
		fset := token.NewFileSet()
		f, err := parser.ParseFile(fset, src, nil, parser.ParseComments)
		if err != nil {
			die("parse %s: %v", src, err)
		}
		for old, nw := range rw.imports {
			found := false
			for _, im := range f.Imports {
				p, _ := strconv.Unquote(im.Path.Value)
				if p == old {
					found = true
					if im.Name == nil {
						base := old[strings.LastIndex(old, "/")+1:]
						im.Name = ast.NewIdent(base)
					}
					im.EndPos = 0
					im.Path.Value = strconv.Quote(nw)
				}
			}
			if !found {
				die("%s no longer imports %q: the hook this rewrite provides is gone", rw.file, old)
			}
		}
		if rw.file == "handlers/memcached/batched/conn.go" {
			// the pooled connection and its buffers, which the batcher, the reader and the recovery
			// goroutine share without a lock
			injectYields(fset, f, func(n ast.Node) bool {
				sel, ok := n.(*ast.SelectorExpr)
				if !ok {
					return false
				}
				id, ok := sel.X.(*ast.Ident)
				return ok && id.Name == "c" && (sel.Sel.Name == "rw" || sel.Sel.Name == "conn")
			}, 5, "touching c.rw / c.conn in batched/conn.go")
		}
		if rw.file == "handlers/inmem/inmem.go" {
			// every access to the shared map: what excludes two connections from each other must be
			// the lock, not the absence of a scheduling point
			injectYields(fset, f, func(n ast.Node) bool {
				sel, ok := n.(*ast.SelectorExpr)
				if !ok {
					return false
				}
				id, ok := sel.X.(*ast.Ident)
				return ok && id.Name == "h" && sel.Sel.Name == "data"
			}, 5, "touching h.data in handlers/inmem/inmem.go")
		}
		if rw.file == "metrics/histograms.go" {
			// between taking a period's data out of a histogram and sorting / reading it
			injectYields(fset, f, func(n ast.Node) bool {
				id, ok := n.(*ast.Ident)
				return ok && id.Name == "hdatPercentiles"
			}, 1, "calling hdatPercentiles in metrics/histograms.go")
		}
		dst := filepath.Join(*work, strings.ReplaceAll(rw.file, "/", "__"))
		w, err := os.Create(dst)
		if err != nil {
			die("%v", err)
		}
		if err := printer.Fprint(w, fset, f); err != nil {
			die("print %s: %v", rw.file, err)
		}
		w.Close()
		replace[src] = dst
	}
	for _, name := range shimPkgs {
		dir := filepath.Join(*shim, name)
		ents, err := os.ReadDir(dir)
		if err != nil {
			die("shim %s: %v", name, err)
		}
		for _, e := range ents {
			if strings.HasSuffix(e.Name(), ".go") {
				replace[filepath.Join(*repo, "verifshim", name, e.Name())] = filepath.Join(dir, e.Name())
			}
		}
	}
	extra(*repo, *work, replace)
	extraOrcas(*repo, *work, replace)
	for _, mp := range mainPrograms {
		genMain(*repo, *work, replace, mp.file, mp.pkg)
	}
	b, _ := json.MarshalIndent(map[string]interface{}{"Replace": replace}, "", " ")
	if err := os.WriteFile(*out, b, 0o644); err != nil {
		die("%v", err)
	}
}

// injectYields inserts vyield.Point("<func>:<line>") before every simple statement containing a
// node for which hit reports true. It fails loudly if fewer than min statements are found.
func injectYields(fset *token.FileSet, f *ast.File, hit func(ast.Node) bool, min int, what string) {
	mentions := func(n ast.Node) bool {
		found := false
		ast.Inspect(n, func(x ast.Node) bool {
			if x != nil && hit(x) {
				found = true
			}
			return !found
		})
		return found
	}
	count := 0
	for _, d := range f.Decls {
		fn, ok := d.(*ast.FuncDecl)
		if !ok || fn.Body == nil {
			continue
		}
		var walk func(b *ast.BlockStmt)
		walk = func(b *ast.BlockStmt) {
			var out []ast.Stmt
			for _, st := range b.List {
				simple := false
				switch t := st.(type) {
				case *ast.ExprStmt, *ast.AssignStmt, *ast.ReturnStmt, *ast.DeclStmt, *ast.SendStmt, *ast.IncDecStmt, *ast.GoStmt, *ast.DeferStmt:
					simple = mentions(st)
				case *ast.IfStmt:
					if t.Init != nil && mentions(t.Init) || mentions(t.Cond) {
						simple = true
					}
				case *ast.RangeStmt:
					// (the header of a compound statement only; its body is descended into below)
					simple = mentions(t.X)
				case *ast.ForStmt:
					simple = t.Init != nil && mentions(t.Init) || t.Cond != nil && mentions(t.Cond)
				case *ast.SwitchStmt:
					simple = t.Init != nil && mentions(t.Init) || t.Tag != nil && mentions(t.Tag)
				}
				if simple {
					label := fmt.Sprintf("%s:%d", fn.Name.Name, fset.Position(st.Pos()).Line)
					pos := st.Pos()
					call := &ast.ExprStmt{X: &ast.CallExpr{
						Fun:    &ast.SelectorExpr{X: &ast.Ident{Name: "vyield", NamePos: pos}, Sel: &ast.Ident{Name: "Point", NamePos: pos}},
						Lparen: pos,
						Args:   []ast.Expr{&ast.BasicLit{Kind: token.STRING, Value: strconv.Quote(label), ValuePos: pos}},
						Rparen: pos,
					}}
					out = append(out, call)
					count++
				}
				out = append(out, st)
				// descend
				ast.Inspect(st, func(x ast.Node) bool {
					if bb, ok := x.(*ast.BlockStmt); ok && bb != b {
						walk(bb)
						return false
					}
					return true
				})
			}
			b.List = out
		}
		walk(fn.Body)
	}
	if count < min {
		die("yield injection found only %d statements %s", count, what)
	}
	f.Imports = append(f.Imports, &ast.ImportSpec{Path: &ast.BasicLit{Kind: token.STRING, Value: strconv.Quote(modPath + "/verifshim/vyield")}})
	for _, d := range f.Decls {
		if gd, ok := d.(*ast.GenDecl); ok && gd.Tok == token.IMPORT {
			gd.Specs = append(gd.Specs, &ast.ImportSpec{Name: ast.NewIdent("vyield"), Path: &ast.BasicLit{Kind: token.STRING, Value: strconv.Quote(modPath + "/verifshim/vyield")}})
			break
		}
	}
}

// extra holds generated files that are not plain import rewrites.
func extra(repo, work string, replace map[string]string) {
	// portable lzcnt copy for C18: same body as metrics/lzcnt.go, build tag stripped, renamed.
	src := filepath.Join(repo, "metrics", "lzcnt.go")
	b, err := os.ReadFile(src)
	if err != nil {
		die("%v", err)
	}
	s := string(b)
	if !strings.Contains(s, "func lzcnt(x uint64) uint64") {
		die("metrics/lzcnt.go no longer defines lzcnt(x uint64) uint64")
	}
	s = strings.Replace(s, "// +build !amd64", "// +build verif", 1)
	s = strings.Replace(s, "//go:build !amd64", "//go:build verif", 1)
	s = strings.Replace(s, "func lzcnt(x uint64) uint64", "// VerifPortableLzcnt is the portable implementation, compiled on every platform for comparison.\nfunc VerifPortableLzcnt(x uint64) uint64", 1)
	dst := filepath.Join(work, "metrics__verif_portable_lzcnt.go")
	if err := os.WriteFile(dst, []byte(s), 0o644); err != nil {
		die("%v", err)
	}
	replace[filepath.Join(repo, "metrics", "verif_portable_lzcnt.go")] = dst

	// read-only view of the in-memory backend's private map for C17 (fingerprints, reset)
	inm, err := os.ReadFile(filepath.Join(repo, "handlers", "inmem", "inmem.go"))
	if err != nil {
		die("%v", err)
	}
	for _, need := range []string{"data  map[string]entry", "mutex *sync.RWMutex", "exptime uint32", "flags   uint32", "data    []byte", "func New() (handlers.Handler, error)"} {
		if !strings.Contains(string(inm), need) {
			die("handlers/inmem/inmem.go no longer contains %q: the C17 export cannot be generated", need)
		}
	}
	exp := `package inmem

import (
	"fmt"
	"reflect"
	"sort"

	"github.com/netflix/rend/handlers"
)

func verifH(h handlers.Handler) *Handler {
	if v, ok := h.(*Handler); ok {
		return v
	}
	panic(fmt.Sprintf("inmem.New returned a %T", h))
}

// VerifSnapshot renders the map behind a handler without taking its lock (harness use only).
func VerifSnapshot(hh handlers.Handler) string {
	h := verifH(hh)
	ks := make([]string, 0, len(h.data))
	for k := range h.data {
		ks = append(ks, k)
	}
	sort.Strings(ks)
	out := ""
	for _, k := range ks {
		e := h.data[k]
		out += fmt.Sprintf("%q=%q/%x/%d;", k, e.data, e.flags, e.exptime)
	}
	return out
}

// VerifSnapshotRel is VerifSnapshot with expiry times relative to now ("x" = already past).
func VerifSnapshotRel(hh handlers.Handler, now uint32) string {
	h := verifH(hh)
	ks := make([]string, 0, len(h.data))
	for k := range h.data {
		ks = append(ks, k)
	}
	sort.Strings(ks)
	out := ""
	for _, k := range ks {
		e := h.data[k]
		switch {
		case e.exptime == 0:
			out += fmt.Sprintf("%q=%q/%x/never;", k, e.data, e.flags)
		case e.exptime <= now:
			out += fmt.Sprintf("%q=%q/%x/x;", k, e.data, e.flags)
		default:
			out += fmt.Sprintf("%q=%q/%x/+%d;", k, e.data, e.flags, e.exptime-now)
		}
	}
	return out
}

// VerifReset empties the map behind a handler.
func VerifReset(hh handlers.Handler) {
	h := verifH(hh)
	for k := range h.data {
		delete(h.data, k)
	}
}

// VerifMutex returns the handler's lock and the identity of its map.
func VerifMutex(hh handlers.Handler) (interface{}, uintptr) {
	h := verifH(hh)
	return h.mutex, reflect.ValueOf(h.data).Pointer()
}
`
	dst = filepath.Join(work, "inmem__verif_export.go")
	if err := os.WriteFile(dst, []byte(exp), 0o644); err != nil {
		die("%v", err)
	}
	replace[filepath.Join(repo, "handlers", "inmem", "verif_export.go")] = dst

	// identities of the locks a /metrics scrape takes (C18 two-scraper exploration)
	ep, err := os.ReadFile(filepath.Join(repo, "metrics", "endpoint.go"))
	if err != nil {
		die("%v", err)
	}
	hs, err := os.ReadFile(filepath.Join(repo, "metrics", "histograms.go"))
	if err != nil {
		die("%v", err)
	}
	if !strings.Contains(string(ep), "metricsReadLock = new(sync.Mutex)") || !strings.Contains(string(hs), "lock *sync.RWMutex") {
		die("metrics: metricsReadLock / hist.lock are no longer declared as expected: the C18 lock export cannot be generated")
	}
	for _, need := range []struct{ file, decl string }{{"counters.go", "curCounterID = new(uint32)"}, {"histograms.go", "curHistID"}, {"gauges.go", "curIntGaugeID = new(uint32)"},
		{"gauges.go", "curFloatGaugeID = new(uint32)"}, {"callbackgauges.go", "curIntCbID"}, {"callbackgauges.go", "curFloatCbID"}, {"bulkcallback.go", "curBulkCbID = new(uint32)"}} {
		b, err := os.ReadFile(filepath.Join(repo, "metrics", need.file))
		if err != nil || !strings.Contains(string(b), need.decl) {
			die("metrics/%s no longer declares %q: the registry-size export (C15) cannot be generated", need.file, need.decl)
		}
	}
	mexp := `package metrics

import "sync/atomic"

// VerifRegistrySizes reports how many slots of each of the package's fixed-size registries are
// taken (counters, histograms, int gauges, float gauges, int callbacks, float callbacks, bulk
// callbacks): nothing a single client connection does may take one for good.
func VerifRegistrySizes() [7]uint32 {
	return [7]uint32{atomic.LoadUint32(curCounterID), atomic.LoadUint32(curHistID), atomic.LoadUint32(curIntGaugeID), atomic.LoadUint32(curFloatGaugeID),
		atomic.LoadUint32(curIntCbID), atomic.LoadUint32(curFloatCbID), atomic.LoadUint32(curBulkCbID)}
}

// VerifScrapeLocks returns the scrape lock and the lock of one histogram (identities only).
func VerifScrapeLocks(hist uint32) (interface{}, interface{}) { return metricsReadLock, hists[hist].lock }
`
	dst = filepath.Join(work, "metrics__verif_locks.go")
	if err := os.WriteFile(dst, []byte(mexp), 0o644); err != nil {
		die("%v", err)
	}
	replace[filepath.Join(repo, "metrics", "verif_locks.go")] = dst

	// handle on the batching pool for C06/C13: grow the pool deterministically, read its size
	rel, err := os.ReadFile(filepath.Join(repo, "handlers", "memcached", "batched", "relay.go"))
	if err != nil {
		die("%v", err)
	}
	for _, need := range []string{"relays    = make(map[string]*relay)", "func (r *relay) addConn()", "conns       atomic.Value"} {
		if !strings.Contains(string(rel), need) {
			die("handlers/memcached/batched/relay.go no longer contains %q: the C06/C13 export cannot be generated", need)
		}
	}
	bexp := `package batched

import "` + modPath + `/verifshim/vsync"

// VerifAddConn adds one pooled connection to the relay of the socket (what the monitor does when
// it decides to expand).
func VerifAddConn(sock string) {
	relayLock.RLock()
	r := relays[sock]
	relayLock.RUnlock()
	r.addConn()
}

// VerifPoolSize reports the number of pooled connections of the socket's relay.
func VerifPoolSize(sock string) int {
	relayLock.RLock()
	r := relays[sock]
	relayLock.RUnlock()
	if r == nil {
		return 0
	}
	return len(r.conns.Load().([]*conn))
}

// VerifForget drops the relay of a socket from the process-wide table (the goroutines stay).
func VerifForget(sock string) {
	relayLock.Lock()
	delete(relays, sock)
	relayLock.Unlock()
}

// VerifFreshRelayTable starts an execution with an empty relay table under a lock of its own: an
// earlier execution that ended while a relay was still being set up keeps the old lock for ever.
func VerifFreshRelayTable() {
	relays = make(map[string]*relay)
	relayLock = new(vsync.RWMutex) // (relay.go gets its sync from the shim, like every file of rend)
}
`
	dst = filepath.Join(work, "batched__verif_export.go")
	if err := os.WriteFile(dst, []byte(bexp), 0o644); err != nil {
		die("%v", err)
	}
	replace[filepath.Join(repo, "handlers", "memcached", "batched", "verif_export.go")] = dst
}

// genMain copies one of rend's main programs into the virtual package verifshim/<pkg>.
func genMain(repo, work string, replace map[string]string, file, pkg string) {
	src := filepath.Join(repo, file)
	fset := token.NewFileSet()
	f, err := parser.ParseFile(fset, src, nil, parser.ParseComments)
	if err != nil {
		die("parse %s: %v", src, err)
	}
	if f.Name.Name != "main" {
		die("%s is no longer package main", file)
	}
	f.Name.Name = pkg
	sawFlag := false
	for _, d := range f.Decls {
		gd, ok := d.(*ast.GenDecl)
		if !ok || gd.Tok != token.IMPORT {
			continue
		}
		var keep []ast.Spec
		for _, sp := range gd.Specs {
			im := sp.(*ast.ImportSpec)
			p, _ := strconv.Unquote(im.Path.Value)
			if p == "net/http/pprof" {
				continue
			}
			if nw, ok := mainImports[p]; ok {
				if im.Name == nil {
					im.Name = ast.NewIdent(p[strings.LastIndex(p, "/")+1:])
				}
				im.EndPos = 0
				im.Path.Value = strconv.Quote(nw)
				if p == "flag" {
					sawFlag = true
				}
			}
			keep = append(keep, sp)
		}
		gd.Specs = keep
	}
	if !sawFlag {
		die("%s no longer imports \"flag\": the harness cannot configure it", file)
	}
	var calls []string
	ninit, sawMain := 0, false
	for _, d := range f.Decls {
		fn, ok := d.(*ast.FuncDecl)
		if !ok || fn.Recv != nil {
			continue
		}
		switch fn.Name.Name {
		case "init":
			fn.Name.Name = fmt.Sprintf("VerifInit%d", ninit)
			calls = append(calls, fn.Name.Name+"()")
			ninit++
		case "main":
			fn.Name.Name = "VerifMain"
			sawMain = true
		}
	}
	if !sawMain {
		die("%s no longer defines main", file)
	}
	dst := filepath.Join(work, "app__"+pkg+".go")
	w, err := os.Create(dst)
	if err != nil {
		die("%v", err)
	}
	if err := printer.Fprint(w, fset, f); err != nil {
		die("print %s: %v", file, err)
	}
	fmt.Fprintf(w, "\n// VerifRun is what starting the program does: every init function in source order, then main.\nfunc VerifRun() {\n\t%s\n\tVerifMain()\n}\n", strings.Join(calls, "\n\t"))
	w.Close()
	replace[filepath.Join(repo, "verifshim", pkg, "main.go")] = dst
}

// extraOrcas lets the harness start over with the process-wide lock-set table (rend allows 1023
// lock sets per process; every deployment built by the real main program takes one).
func extraOrcas(repo, work string, replace map[string]string) {
	b, err := os.ReadFile(filepath.Join(repo, "orcas", "locked.go"))
	if err != nil {
		die("%v", err)
	}
	if !strings.Contains(string(b), "curslot uint32") {
		die("orcas/locked.go no longer declares curslot uint32: the lock-set reset export cannot be generated")
	}
	exp := `package orcas

import "sync/atomic"

// VerifSwapLockCursor sets the number of the lock set handed out last and returns the previous
// value: a deployment built by the real main program is given a slot of its own (and the cursor
// is put back afterwards), so that it never shares a table with lock sets the harness created.
func VerifSwapLockCursor(v uint32) uint32 { return atomic.SwapUint32(&curslot, v) }
`
	dst := filepath.Join(work, "orcas__verif_reset.go")
	if err := os.WriteFile(dst, []byte(exp), 0o644); err != nil {
		die("%v", err)
	}
	replace[filepath.Join(repo, "orcas", "verif_reset.go")] = dst
}
