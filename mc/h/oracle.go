package h

import (
	"fmt"
	"sort"

	"verif/refmodel"
	"verif/wire"
)

// Expect applies op to the reference model and returns what a client must observe.
type Expect struct {
	Class  string // ok | refused | values
	Hits   []wire.Hit
	Misses int // binary: explicit not-found replies expected
	Terms  int
	Silent bool // no reply expected at all
	// Why: for a refusal, the refusals that do not contradict the map's state (see refusalOf)
	Why []string
}

// refusalOf: the refusals a client may be given when the command cannot be carried out. The
// property does not pin the word (memcached itself says NOT_STORED in the text protocol where the
// binary protocol says "key exists" / "key not found", and rend's chunked handler reports a
// missing key as not found where memcached says not stored); what it does pin is that the reply
// is what the map says: a refusal that asserts the opposite of the key's state - "exists" for a key
// that is absent, "not found" for a key that is there - is not a reply that map would give.
func refusalOf(kind string) []string {
	switch kind {
	case "delete", "touch":
		return []string{"NOT_FOUND"} // the key is absent
	case "add":
		return []string{"EXISTS", "NOT_STORED"} // the key is present
	}
	return []string{"NOT_FOUND", "NOT_STORED"} // replace, append, prepend: the key is absent
}

// ApplyModel executes op on the model and derives the expected observation for the protocol.
func ApplyModel(m *refmodel.Model, proto string, op wire.Op) Expect {
	cls := func(r string) Expect {
		if r == refmodel.OK {
			if op.QuietW {
				return Expect{Class: "ok", Silent: true}
			}
			return Expect{Class: "ok"}
		}
		return Expect{Class: "refused", Why: refusalOf(op.Kind)}
	}
	switch op.Kind {
	case "set", "add", "replace":
		return cls(m.Store(op.Kind, op.Key, op.Val, op.Flags, op.TTL))
	case "append", "prepend":
		return cls(m.Concat(op.Kind, op.Key, op.Val))
	case "delete":
		return cls(m.Delete(op.Key))
	case "touch":
		return cls(m.Touch(op.Key, op.TTL))
	case "get", "gat", "gete", "mget":
		keys, quiet := op.Keys, op.Quiet
		if op.Kind != "mget" {
			keys, quiet = []string{op.Key}, []bool{false}
		}
		e := Expect{Class: "values"}
		for i, k := range keys {
			var ent refmodel.Entry
			var ok bool
			if op.Kind == "gat" {
				ent, ok = m.Gat(k, op.TTL)
			} else {
				ent, ok = m.Get(k)
			}
			if ok {
				h := wire.Hit{Key: k, Val: ent.Val, Flags: ent.Flags, Idx: i}
				if proto == "text" {
					h.Idx = -1
				}
				if op.Kind == "gete" && ent.Deadline != 0 {
					h.TTL = ent.Deadline - m.Now
				}
				e.Hits = append(e.Hits, h)
			} else if proto == "binary" && !quiet[i] {
				e.Misses++
			}
		}
		if proto == "text" {
			e.Terms = 1
		} else if op.Kind == "mget" && op.NoopEnd {
			e.Terms = 1
		}
		if proto == "binary" && len(e.Hits) == 0 && e.Misses == 0 && e.Terms == 0 {
			e.Silent = true
		}
		return e
	case "noop", "version", "stat", "quit":
		e := Expect{Class: "ok"}
		if op.Kind == "stat" {
			e.Terms = 1
		}
		if op.QuietW {
			e.Silent = true
		}
		return e
	case "unknown":
		return Expect{Class: "error"}
	}
	panic("ApplyModel: " + op.Kind)
}

func hitsKey(hs []wire.Hit) string {
	s := make([]string, len(hs))
	for i, h := range hs {
		s[i] = fmt.Sprintf("%d|%s|%q|%x|%d", h.Idx, h.Key, h.Val, h.Flags, h.TTL)
	}
	sort.Strings(s)
	return fmt.Sprint(s)
}

// Diff compares an observed reply with the expectation; "" means equal. clause names the part of
// the property that failed (used in violation signatures).
func Diff(op wire.Op, e Expect, r wire.Reply) (clause, detail string) {
	if r.Malformed != "" {
		return "malformed-reply", r.Malformed
	}
	if e.Silent {
		if r.Class != "none" && !(r.Class == "values" && r.Frames == 0) {
			return "reply-to-quiet", fmt.Sprintf("expected silence, got %s", r)
		}
		return "", ""
	}
	switch e.Class {
	case "ok", "refused", "error":
		if r.Class != e.Class {
			return "outcome", fmt.Sprintf("expected %s, got %s", e.Class, r)
		}
		if e.Class == "refused" && len(e.Why) > 0 {
			ok := false
			for _, w := range e.Why {
				ok = ok || r.Detail == w
			}
			if !ok {
				return "refusal-kind", fmt.Sprintf("this %s cannot be carried out because of the key's state, which %v says; the reply was %s", op.Kind, e.Why, r)
			}
		}
		if op.Kind == "stat" && r.Terms != 1 {
			return "terminator", fmt.Sprintf("stat: %d terminators", r.Terms)
		}
	case "values":
		if r.Class != "values" {
			return "outcome", fmt.Sprintf("expected values %v, got %s", e.Hits, r)
		}
		if r.Terms != e.Terms {
			return "terminator", fmt.Sprintf("expected %d terminator(s), got %d", e.Terms, r.Terms)
		}
		if hitsKey(e.Hits) != hitsKey(r.Hits) {
			return "value", fmt.Sprintf("expected hits %v, got %v", e.Hits, r.Hits)
		}
		if r.Misses != e.Misses {
			return "miss-replies", fmt.Sprintf("expected %d not-found replies, got %d", e.Misses, r.Misses)
		}
	}
	return "", ""
}

// modelWith returns a reference map that holds the fault harness's key or not.
func modelWith(had bool) *refmodel.Model {
	m := refmodel.New(bubbleEpoch)
	if had {
		m.Store("set", fKey, fOld, fOldF, 0)
	}
	return m
}
