package h

import (
	"encoding/json"
	"fmt"
	"strings"

	"verif/rt"
	"verif/wire"
)

// stackAlphabet is the colliding command alphabet of C01/C02 (simplest first). Key "a" carries the
// full command set, key "b" a reduced one (it exists for multi-key gets and cross-key isolation).
func stackAlphabet(cfg Cfg, withEvict bool) []wire.Op {
	var out []wire.Op
	bin := cfg.Proto == "binary"
	for _, port := range cfg.Ports() {
		p := func(o wire.Op) { o.Port = port; out = append(out, o) }
		p(wire.Op{Kind: "get", Key: "a"})
		p(wire.Op{Kind: "set", Key: "a", Val: "x", Flags: 0xfffffffe, TTL: 0})
		p(wire.Op{Kind: "set", Key: "a", Val: "yz", Flags: 0, TTL: 3600})
		p(wire.Op{Kind: "set", Key: "a", Val: "", Flags: 7, TTL: 0})
		// a key with characters that mean something to formatting functions (keys are opaque bytes)
		p(wire.Op{Kind: "set", Key: "u%3A%s%d%%", Val: "x", Flags: 12, TTL: 0})
		p(wire.Op{Kind: "mget", Keys: []string{"u%3A%s%d%%", "a"}, Quiet: []bool{bin, false}})
		// a value whose bytes look like protocol text (values are length-delimited in both protocols)
		p(wire.Op{Kind: "set", Key: "b", Val: "\r\nEND\r\nVALUE b 0 1\r\n", Flags: 0x80000000, TTL: 0})
		p(wire.Op{Kind: "add", Key: "a", Val: "p", Flags: 1, TTL: 0})
		p(wire.Op{Kind: "replace", Key: "a", Val: "q", Flags: 2, TTL: 3600})
		p(wire.Op{Kind: "append", Key: "a", Val: "s"})
		p(wire.Op{Kind: "prepend", Key: "a", Val: "t"})
		p(wire.Op{Kind: "delete", Key: "a"})
		p(wire.Op{Kind: "touch", Key: "a", TTL: 3600})
		if bin {
			p(wire.Op{Kind: "gat", Key: "a", TTL: 0})
			// quiet writes: silent on success, reported when refused
			p(wire.Op{Kind: "replace", Key: "b", Val: "r", Flags: 6, QuietW: true})
			p(wire.Op{Kind: "add", Key: "a", Val: "n", Flags: 8, QuietW: true})
			p(wire.Op{Kind: "append", Key: "b", Val: "u", QuietW: true})
			p(wire.Op{Kind: "set", Key: "b", Val: "w", Flags: 3, QuietW: true})
			p(wire.Op{Kind: "prepend", Key: "a", Val: "h", QuietW: true})
			if cfg.Orca == "l1only" && cfg.L1H != "chunked" && cfg.L1H != "inmem" {
				// (the in-process debug backend reports an absolute expiry there; how it renders the
				// expiry of get-with-expiry is not part of any property - C17 leaves it out as well)
				// get-with-expiry (L1-only deployments): the value, its flags and its remaining lifetime
				p(wire.Op{Kind: "gete", Key: "a"})
			}
		}
		p(wire.Op{Kind: "get", Key: "b"})
		p(wire.Op{Kind: "set", Key: "b", Val: "x", Flags: 5, TTL: 0})
		p(wire.Op{Kind: "delete", Key: "b"})
		// a multi-key get is one request: text "get a b"; binary GETQ* closed by GET or NOOP
		p(wire.Op{Kind: "mget", Keys: []string{"a", "b"}, Quiet: []bool{bin, false}})
		p(wire.Op{Kind: "mget", Keys: []string{"a", "a"}, Quiet: []bool{bin, false}})
		// three keys, one of them never stored: every mix of L1 hit / L2 hit / miss in one request
		p(wire.Op{Kind: "mget", Keys: []string{"a", "nokey", "b"}, Quiet: []bool{bin, bin, false}})
		p(wire.Op{Kind: "mget", Keys: []string{"b", "a", "nokey"}, Quiet: []bool{bin, bin, false}})
		{
			// one request line longer than the parser's 4 KiB buffer: 17 maximal keys that miss, then a
			var ks []string
			var q []bool
			for i := 0; i < 17; i++ {
				ks = append(ks, fmt.Sprintf("%0250d", i))
				q = append(q, bin)
			}
			p(wire.Op{Kind: "mget", Keys: append(ks, "a"), Quiet: append(q, false)})
		}
		if bin {
			p(wire.Op{Kind: "mget", Keys: []string{"a", "b"}, Quiet: []bool{true, true}, NoopEnd: true})
			p(wire.Op{Kind: "mget", Keys: []string{"b", "a"}, Quiet: []bool{true, false}})
		}
	}
	if withEvict {
		out = append(out, wire.Op{Kind: "evict", Key: "a"}, wire.Op{Kind: "evict", Key: "b"})
	}
	// the connections stay idle for two hours (entries with the one-hour TTL are gone afterwards)
	out = append(out, wire.Op{Kind: "advance", Sec: 7200})
	return out
}

func init() {
	rt.Register("C01", rt.Harness{Run: runC01, Replay: replaySeq(SeqOpts{})})
}

func replaySeq(o SeqOpts) func(c *rt.Ctx, raw json.RawMessage) string {
	return func(c *rt.Ctx, raw json.RawMessage) string {
		var sc SeqScenario
		if err := json.Unmarshal(raw, &sc); err != nil {
			return "bad scenario: " + err.Error()
		}
		var r *SeqResult
		InBubble(c.T, func() { r = RunSeq(sc, o) })
		out := fmt.Sprintf("cfg=%s\n", sc.Cfg)
		for i, op := range sc.Ops {
			out += fmt.Sprintf("  %d: %s\n", i, op)
		}
		out += fmt.Sprintf("replies: %v\nstate: %s\n", r.Replies, r.StateKey)
		if len(r.Findings) == 0 {
			return out + "OK: no finding"
		}
		s := "VIOLATION reproduced:\n"
		for _, f := range r.Findings {
			s += "  " + f.Sig + " :: " + f.What + "\n"
		}
		return s + out
	}
}

func runC01(c *rt.Ctx) {
	cfgs := AllCfgs([]string{"std"})
	// the chunked L1 handler under the same orchestrators (as memproxy --chunked deploys it; the
	// locking wrapper is single-reader there)
	for _, o := range []string{"l1only", "l1l2", "l1l2b"} {
		for _, p := range []string{"binary", "text"} {
			for _, l := range []string{"none", "single"} {
				cfgs = append(cfgs, Cfg{Orca: o, Lock: l, Proto: p, L1H: "chunked"})
			}
		}
	}
	maxLen := 2
	depth := 4
	if c.Thorough() {
		maxLen, depth = 4, 0
	}
	// the batching pool as L1 (memproxy --l1-batched): every command goes through the real relay,
	// batcher and reader goroutines under the virtual clock
	for _, o := range []string{"l1only", "l1l2", "l1l2b"} {
		for _, p := range []string{"binary", "text"} {
			cfgs = append(cfgs, Cfg{Orca: o, Lock: "none", Proto: p, L1H: "batched"})
		}
	}
	// the same deployments as rend's own main program builds them from its command line (flags,
	// lock-set sharing between the two ports, listeners, handler constructors, accept loop)
	cfgs = append(cfgs, AppCfgs()...)
	cfgs = append(cfgs, AppCfgsRare()...)
	totalStates, totalTrans := 0, 0
	for i, cfg := range cfgs {
		if !c.Mine(i) {
			continue
		}
		alpha := stackAlphabet(cfg, false)
		bo := BFSOpts{MaxDepth: depth, MaxValLen: maxLen, Bubble: true}
		st, tr, complete := BFS(c, "C01", cfg, alpha, bo)
		if !complete && depth == 0 {
			c.Cap("BFS incomplete for " + cfg.String())
		}
		totalStates += st
		totalTrans += tr
		c.State(int64(st))
		c.Trans(int64(tr))
	}
	// the same search with every command on a connection of its own (whatever the process keeps
	// from one connection to the next - pools, tables, anything initialised on first use - is then
	// between any two commands), on the deployments the real main program builds
	for i, cfg := range AppCfgs() {
		if cfg.L1H == "batched" || !c.Mine(500+i) {
			continue
		}
		d := 3
		if c.Thorough() {
			d = 5
		}
		st, tr, _ := BFS(c, "C01", cfg, stackAlphabet(cfg, false), BFSOpts{MaxDepth: d, MaxValLen: maxLen, Bubble: true, Fresh: true})
		c.State(int64(st))
		c.Trans(int64(tr))
	}
	c.Set("depth_bound", depth)
	c.Set("value_len_cap", maxLen)

	// second sweep: one value of every length through every configuration, read back bit for bit
	// (lengths cross bufio and chunk boundaries)
	maxSweep := 2300
	step := 1
	if !c.Thorough() {
		step = 7
	}
	for i, cfg := range cfgs {
		if !c.Mine(1000 + i) {
			continue
		}
		// beyond the dense range: lengths around the buffer sizes of the stack (bufio 4096, the pool's
		// 64 KiB batch buffer, 16-bit boundaries)
		extra := []int{4095, 4096, 4097, 8191, 8193, 65535, 65536, 65537, 100000, 1048575, 1048576, 1048577, 2097153}
		for n := 0; n <= maxSweep+len(extra)*step; n += step {
			if c.Expired() {
				return
			}
			ln := n
			if !c.Thorough() && n > 0 {
				ln = n - (i % step) // different residues per configuration
			}
			if n > maxSweep {
				ln = extra[(n-maxSweep-1)/step]
			}
			val := string(wire.GenValue(ln, ln+i))
			if cfg.Proto == "text" {
				val = strings.Map(func(r rune) rune { return r }, val)
			}
			ops := []wire.Op{
				{Kind: "set", Key: "sw", Val: val, Flags: uint32(ln) * 2654435761, Port: len(cfg.Ports()) - 1},
				{Kind: "get", Key: "sw"},
				{Kind: "append", Key: "sw", Val: "tail", Port: 0},
				{Kind: "mget", Keys: []string{"sw", "nope"}, Quiet: []bool{cfg.Proto == "binary", false}},
				{Kind: "prepend", Key: "sw", Val: "head", Port: len(cfg.Ports()) - 1},
			}
			if cfg.Orca != "l1only" {
				// served from L2 and back-filled into L1, at this size
				ops = append(ops, wire.Op{Kind: "evict", Key: "sw"})
			}
			ops = append(ops, wire.Op{Kind: "get", Key: "sw"})
			if cfg.Proto == "binary" {
				ops = append(ops, wire.Op{Kind: "gat", Key: "sw", TTL: 3600})
			}
			ops = append(ops,
				wire.Op{Kind: "replace", Key: "sw", Val: string(wire.GenValue((ln*3)/2+1, ln+7)), Flags: 0x80000001, Port: 0},
				wire.Op{Kind: "get", Key: "sw", Port: len(cfg.Ports()) - 1},
				wire.Op{Kind: "delete", Key: "sw"},
				wire.Op{Kind: "get", Key: "sw"})
			sc := SeqScenario{Harness: "C01", Cfg: cfg, Ops: ops}
			var r *SeqResult
			InBubble(c.T, func() { r = RunSeq(sc, SeqOpts{}) })
			c.Eval(1)
			c.Trace(1)
			c.Trans(int64(len(ops)))
			for _, f := range r.Findings {
				c.Violation(f.Sig, f.What, sc)
			}
		}
		c.Distinct("sweep|" + cfg.String())
	}
	c.Set("sweep_max_len", maxSweep)
}
