package h

import (
	"encoding/json"
	"fmt"

	"verif/rt"
	"verif/wire"
)

// stackAlphabet is the colliding command alphabet of C01/C02 (simplest first). Key "a" carries the
// full command set, key "b" a reduced one (it exists for multi-key gets and cross-key isolation).
func stackAlphabet(cfg Cfg, withEvict bool) []wire.Op {
	var out []wire.Op
	bin := cfg.Proto == "binary"
	for _, port := range cfg.Ports() {
		p := func(o wire.Op) { o.Port = port; out = append(out, o) }
		p(wire.Op{Kind: "get", Key: "a"})
		p(wire.Op{Kind: "set", Key: "a", Val: "x", Flags: 0xfffffffe, TTL: 0})
		p(wire.Op{Kind: "set", Key: "a", Val: "yz", Flags: 0, TTL: 3600})
		p(wire.Op{Kind: "set", Key: "a", Val: "", Flags: 7, TTL: 0})
		p(wire.Op{Kind: "add", Key: "a", Val: "p", Flags: 1, TTL: 0})
		p(wire.Op{Kind: "replace", Key: "a", Val: "q", Flags: 2, TTL: 3600})
		p(wire.Op{Kind: "append", Key: "a", Val: "s"})
		p(wire.Op{Kind: "prepend", Key: "a", Val: "t"})
		p(wire.Op{Kind: "delete", Key: "a"})
		p(wire.Op{Kind: "touch", Key: "a", TTL: 3600})
		if bin {
			p(wire.Op{Kind: "gat", Key: "a", TTL: 0})
		}
		p(wire.Op{Kind: "get", Key: "b"})
		p(wire.Op{Kind: "set", Key: "b", Val: "x", Flags: 5, TTL: 0})
		p(wire.Op{Kind: "delete", Key: "b"})
		// a multi-key get is one request: text "get a b"; binary GETQ* closed by GET or NOOP
		p(wire.Op{Kind: "mget", Keys: []string{"a", "b"}, Quiet: []bool{bin, false}})
		p(wire.Op{Kind: "mget", Keys: []string{"a", "a"}, Quiet: []bool{bin, false}})
		if bin {
			p(wire.Op{Kind: "mget", Keys: []string{"a", "b"}, Quiet: []bool{true, true}, NoopEnd: true})
			p(wire.Op{Kind: "mget", Keys: []string{"b", "a"}, Quiet: []bool{true, false}})
		}
	}
	if withEvict {
		out = append(out, wire.Op{Kind: "evict", Key: "a"}, wire.Op{Kind: "evict", Key: "b"})
	}
	return out
}

func init() {
	rt.Register("C01", rt.Harness{Run: runC01, Replay: replaySeq(SeqOpts{})})
}

func replaySeq(o SeqOpts) func(c *rt.Ctx, raw json.RawMessage) string {
	return func(c *rt.Ctx, raw json.RawMessage) string {
		var sc SeqScenario
		if err := json.Unmarshal(raw, &sc); err != nil {
			return "bad scenario: " + err.Error()
		}
		var r *SeqResult
		InBubble(c.T, func() { r = RunSeq(sc, o) })
		out := fmt.Sprintf("cfg=%s\n", sc.Cfg)
		for i, op := range sc.Ops {
			out += fmt.Sprintf("  %d: %s\n", i, op)
		}
		out += fmt.Sprintf("replies: %v\nstate: %s\n", r.Replies, r.StateKey)
		if len(r.Findings) == 0 {
			return out + "OK: no finding"
		}
		s := "VIOLATION reproduced:\n"
		for _, f := range r.Findings {
			s += "  " + f.Sig + " :: " + f.What + "\n"
		}
		return s + out
	}
}

func runC01(c *rt.Ctx) {
	cfgs := AllCfgs([]string{"std"})
	maxLen := 2
	depth := 4
	if c.Thorough() {
		maxLen, depth = 3, 0
	}
	totalStates, totalTrans := 0, 0
	for i, cfg := range cfgs {
		if !c.Mine(i) {
			continue
		}
		alpha := stackAlphabet(cfg, false)
		bo := BFSOpts{MaxDepth: depth, MaxValLen: maxLen, Bubble: true}
		st, tr, complete := BFS(c, "C01", cfg, alpha, bo)
		if !complete && depth == 0 {
			c.Cap("BFS incomplete for " + cfg.String())
		}
		totalStates += st
		totalTrans += tr
		c.State(int64(st))
		c.Trans(int64(tr))
	}
	c.Set("depth_bound", depth)
	c.Set("value_len_cap", maxLen)
}
