package h

import (
	"encoding/json"
	"fmt"

	"verif/rt"
	"verif/wire"
)

func init() {
	rt.Register("C04", rt.Harness{Run: runC04, Replay: replayChunk(ChunkOpts{})})
}

func replayChunk(o ChunkOpts) func(c *rt.Ctx, raw json.RawMessage) string {
	return func(c *rt.Ctx, raw json.RawMessage) string {
		var sc ChunkScenario
		if err := json.Unmarshal(raw, &sc); err != nil {
			return "bad scenario: " + err.Error()
		}
		var r *ChunkResult
		InBubble(c.T, func() { r = RunChunk(sc, o) })
		out := ""
		for i, op := range sc.Ops {
			out += fmt.Sprintf("  %d: %s\n", i, op)
		}
		out += fmt.Sprintf("results: %v\nstate: %s\n", r.Results, r.StateKey)
		if len(r.Findings) == 0 {
			return out + "OK: no finding"
		}
		s := "VIOLATION reproduced:\n"
		for _, f := range r.Findings {
			s += "  " + f.Sig + " :: " + f.What + "\n"
		}
		return s + out
	}
}

// chunkAlphabet: adversarial keys (client keys that look like derived backend keys), every key as
// an exact-capacity slice and as a slice with spare capacity, values around the chunk payload.
func chunkAlphabet(keys []string, thorough bool) []wire.Op {
	var out []wire.Op
	seed := 0
	for _, spare := range []bool{false, true} {
		for ki, k := range keys {
			p := payloadFor(len(k))
			nk := keys[(ki+1)%len(keys)]
			v := func(kind string, n int, flags, ttl uint32) wire.Op {
				seed++
				return wire.Op{Kind: kind, Key: k, VGen: true, VLen: n, VSeed: seed, Flags: flags, TTL: ttl, Spare: spare}
			}
			out = append(out,
				wire.Op{Kind: "get", Key: k, Spare: spare},
				v("set", p+1, 0xfffffffe, 0),
				v("set", 1, 0, 3600),
				v("set", 0, 7, 0),
				v("add", p, 1, 0),
				v("replace", 2*p+1, 2, 3600),
				v("append", 1, 0, 0),
				v("prepend", p-1, 0, 0),
				wire.Op{Kind: "delete", Key: k, Spare: spare},
				wire.Op{Kind: "touch", Key: k, TTL: 100, Spare: spare},
				wire.Op{Kind: "gat", Key: k, TTL: 0, Spare: spare},
				// multi-key gets: responses of one request must not share buffers
				wire.Op{Kind: "mget", Keys: []string{k, nk}, Spare: spare},
				wire.Op{Kind: "mget", Keys: []string{nk, k, k}, Spare: spare},
			)
			if thorough {
				out = append(out, v("set", p-1, 3, 0), v("set", 2*p, 4, 0))
			}
		}
	}
	return out
}

func chunkBFS(c *rt.Ctx, harness string, alphabet []wire.Op, maxDepth int, maxVal int, o ChunkOpts, onExec func(sc ChunkScenario, r *ChunkResult)) (states, trans int) {
	run := func(sc ChunkScenario) *ChunkResult {
		var r *ChunkResult
		InBubble(c.T, func() { r = RunChunk(sc, o) })
		return r
	}
	root := run(ChunkScenario{Harness: harness})
	seen := map[string]bool{root.StateKey: true}
	type fnode struct {
		ops []wire.Op
		key string
	}
	frontier := []fnode{{nil, root.StateKey}}
	states = 1
	for depth := 0; len(frontier) > 0 && depth < maxDepth; depth++ {
		var next []fnode
		for fi, fn := range frontier {
			// the frontier of each level is dealt to the workers; every worker recomputes the
			// (cheap, deterministic) set of states of the previous levels itself
			for ei, ev := range alphabet {
				if c.Expired() {
					return
				}
				mine := c.Mine(fi*len(alphabet) + ei)
				if !mine && depth == maxDepth-1 {
					continue // last level: nobody needs the successors, so the work is split
				}
				ops := append(append([]wire.Op{}, fn.ops...), ev)
				sc := ChunkScenario{Harness: harness, Ops: ops}
				r := run(sc)
				if mine {
					trans++
					c.Eval(1)
					c.Trace(1)
					if onExec != nil {
						onExec(sc, r)
					}
					for _, f := range r.Findings {
						c.Violation(f.Sig, f.What, sc)
					}
					last := r.Results[len(r.Results)-1]
					if len(r.Results) > 0 && (last[0] == 'r' || (len(last) > 7 && last[:7] == "values[" && last[7] == '{')) {
						c.Nontrivial(fn.key + "|" + ev.String())
					}
				}
				if len(r.Findings) > 0 || (maxVal > 0 && r.MaxVal > maxVal) {
					continue
				}
				if !seen[r.StateKey] {
					seen[r.StateKey] = true
					if mine {
						states++
						c.StateKey(r.StateKey)
						c.Distinct(r.StateKey)
						if states%211 == 1 {
							c.Sample(map[string]interface{}{"history": opsStrings(ops), "results": r.Results, "state": r.StateKey, "orphan_chunks": r.Orphans})
						}
					}
					next = append(next, fnode{ops, r.StateKey})
				}
			}
		}
		frontier = next
	}
	return
}

func runC04(c *rt.Ctx) {
	// (a) explicit-state BFS over command sequences with adversarial keys
	depth := 2
	keys := []string{"a", "a-0", "a-1", "a-meta"}
	if c.Thorough() {
		depth = 3
	}
	alpha := chunkAlphabet(keys, c.Thorough())
	_, tr := chunkBFS(c, "C04", alpha, depth, 0, ChunkOpts{}, nil)
	c.Trans(int64(tr))
	c.Set("bfs_depth", depth)

	// (a2) one key, deeper: values that shrink and grow across chunk counts, delete, then
	// add / replace / append (what an earlier, larger value left behind must not matter)
	{
		k := "k"
		p := payloadFor(len(k))
		seed := 1000
		v := func(kind string, n int, flags uint32) wire.Op {
			seed++
			return wire.Op{Kind: kind, Key: k, VGen: true, VLen: n, VSeed: seed, Flags: flags}
		}
		deep := []wire.Op{
			{Kind: "get", Key: k},
			v("set", 2*p+1, 1), v("set", p+1, 2), v("set", 1, 3), v("set", 0, 4),
			v("add", 3*p, 5), v("add", p+1, 6), v("add", 1, 7),
			v("replace", 2*p+1, 8), v("replace", 1, 9),
			v("append", p, 0), v("prepend", 1, 0),
			{Kind: "delete", Key: k}, {Kind: "touch", Key: k, TTL: 100},
		}
		d2 := 4
		if c.Thorough() {
			d2 = 5
		}
		_, tr2 := chunkBFS(c, "C04", deep, d2, 4*p, ChunkOpts{}, nil)
		c.Trans(int64(tr2))
		c.Set("bfs_depth_single_key", d2)
	}

	// (b) grid: every key length x value lengths around every multiple of the payload
	klens := []int{1, 2, 3, 7, 8, 9, 100, 125, 200, 248, 249, 250}
	maxK := 3
	if c.Thorough() {
		klens = nil
		for i := 1; i <= 250; i++ {
			klens = append(klens, i)
		}
		maxK = 6
	}
	item := 0
	for _, kl := range klens {
		for _, spare := range []bool{false, true} {
			item++
			if !c.Mine(item) {
				continue
			}
			if c.Expired() {
				return
			}
			key := string(wire.GenValue(kl, kl))
			kb := []byte(key)
			for i := range kb {
				kb[i] = 'A' + kb[i]%26
			}
			key = string(kb)
			key2 := key[:kl-1] + "~" // a second key of the same length for multi-key gets
			p := payloadFor(kl)
			lens := map[int]bool{0: true, 1: true}
			for k := 1; k <= maxK; k++ {
				lens[k*p-1], lens[k*p], lens[k*p+1] = true, true, true
			}
			seed := 0
			for n := range lens {
				seed++
				ops := []wire.Op{
					{Kind: "set", Key: key, VGen: true, VLen: n, VSeed: seed + kl, Flags: uint32(n) ^ 0xa5a5a5a5, TTL: 0, Spare: spare},
					{Kind: "get", Key: key, Spare: spare},
					{Kind: "set", Key: key2, VGen: true, VLen: n/2 + 1, VSeed: seed + 3000, Flags: 9, Spare: spare},
					{Kind: "mget", Keys: []string{key, key2, key}, Spare: spare},
					{Kind: "mget", Keys: []string{key2, key}, Spare: spare},
					{Kind: "delete", Key: key2, Spare: spare},
					{Kind: "gat", Key: key, TTL: 1000, Spare: spare},
					{Kind: "append", Key: key, VGen: true, VLen: 3, VSeed: seed + 1000, Spare: spare},
					{Kind: "get", Key: key, Spare: spare},
					{Kind: "prepend", Key: key, VGen: true, VLen: p, VSeed: seed + 2000, Spare: spare},
					{Kind: "get", Key: key, Spare: spare},
					{Kind: "touch", Key: key, TTL: 50, Spare: spare},
					{Kind: "get", Key: key, Spare: spare},
					{Kind: "delete", Key: key, Spare: spare},
					{Kind: "get", Key: key, Spare: spare},
					{Kind: "gat", Key: key, TTL: 5, Spare: spare},
				}
				sc := ChunkScenario{Harness: "C04", Ops: ops}
				var r *ChunkResult
				InBubble(c.T, func() { r = RunChunk(sc, ChunkOpts{}) })
				c.Eval(1)
				c.Trace(1)
				c.Trans(int64(len(ops)))
				c.Distinct(fmt.Sprintf("grid|%d|%v|%d", kl, spare, n))
				if n > p {
					c.Nontrivial(fmt.Sprintf("grid|%d|%v|%d", kl, spare, n))
				}
				for _, f := range r.Findings {
					c.Violation(f.Sig, f.What, sc)
				}
			}
		}
	}
	// (b2) values of many chunks: counts around every power of two a window, batch or counter might
	// be sized to, up to 5 000 (thorough 70 000) chunks; loud and quiet writes; read back three ways
	manyCounts := []int{31, 32, 33, 255, 256, 257, 1000, 1023, 1024, 1025, 4095, 4096, 4097, 5000}
	if c.Thorough() {
		manyCounts = append(manyCounts, 8191, 8192, 8193, 32767, 32768, 32769, 65535, 65536, 65537, 70000)
	}
	for _, kl := range []int{1, 250} {
		for ci, n := range manyCounts {
			for _, quiet := range []bool{false, true} {
				item++
				if !c.Mine(item) || c.Expired() {
					continue
				}
				if quiet && ci%3 != 0 {
					continue
				}
				kb := wire.GenValue(kl, kl+77)
				for i := range kb {
					kb[i] = 'A' + kb[i]%26
				}
				key := string(kb)
				p := payloadFor(kl)
				for _, vlen := range []int{n*p - 1, n * p, n*p + 1} {
					ops := []wire.Op{
						{Kind: "set", Key: key, VGen: true, VLen: vlen, VSeed: n + kl, Flags: uint32(n), QuietW: quiet},
						{Kind: "get", Key: key},
						{Kind: "gat", Key: key, TTL: 1000},
						{Kind: "mget", Keys: []string{key, key}},
						{Kind: "append", Key: key, VGen: true, VLen: 2, VSeed: 5},
						{Kind: "get", Key: key},
					}
					sc := ChunkScenario{Harness: "C04", Ops: ops}
					var r *ChunkResult
					InBubble(c.T, func() { r = RunChunk(sc, ChunkOpts{NoPhys: true}) })
					c.Eval(1)
					c.Trace(1)
					c.Trans(int64(len(ops)))
					c.Distinct(fmt.Sprintf("many|%d|%d|%v", kl, vlen, quiet))
					c.Nontrivial(fmt.Sprintf("many|%d|%d|%v", kl, vlen, quiet))
					for _, f := range r.Findings {
						c.Violation(f.Sig, f.What, sc)
					}
				}
			}
		}
	}
	c.Set("grid_key_lengths", len(klens))
	c.Set("grid_max_chunks", maxK+1)
}

// replayChunkLoss replays a lossy chunk scenario (C05): the torn-value oracle needs the set of
// fully written values, which is recomputed from the scenario's own set commands.
func replayChunkLoss(c *rt.Ctx, raw json.RawMessage) string {
	var sc ChunkScenario
	if err := json.Unmarshal(raw, &sc); err != nil {
		return "bad scenario: " + err.Error()
	}
	var written [][]byte
	var flags []uint32
	var suffix []byte
	isPrefix := false
	readIdx := len(sc.Ops)
	for i, op := range sc.Ops {
		switch op.Kind {
		case "set":
			written = append(written, op.Value())
			flags = append(flags, op.Flags)
		case "append", "prepend":
			suffix = op.Value()
			isPrefix = op.Kind == "prepend"
			if i < readIdx {
				readIdx = i
			}
		case "get", "gat":
			if i < readIdx {
				readIdx = i
			}
		}
	}
	oracle := lossOracle(written, flags, suffix, isPrefix)
	multi := multiKeyOracle(sc.Ops)
	var r *ChunkResult
	InBubble(c.T, func() {
		r = RunChunk(sc, ChunkOpts{NoModel: true, NoPhys: true, AfterEach: func(i int, op wire.Op, st *fakemcStore, m *refModel, res HRes) (string, string) {
			if op.Kind == "mget" {
				return multi(op, res)
			}
			if i < readIdx {
				return "", ""
			}
			return oracle(res)
		}})
	})
	out := ""
	for i, op := range sc.Ops {
		out += fmt.Sprintf("  %d: %s\n", i, op)
	}
	out += fmt.Sprintf("results: %v\n", r.Results)
	if len(r.Findings) == 0 {
		return out + "OK: no finding"
	}
	s := "VIOLATION reproduced:\n"
	for _, f := range r.Findings {
		s += "  " + f.Sig + " :: " + f.What + "\n"
	}
	return s + out
}
