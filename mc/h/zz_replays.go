package h

import (
	"encoding/json"
	"fmt"
	"testing/synctest"

	"github.com/netflix/rend/metrics"

	"verif/rt"
	"verif/sched"
	"verif/wire"
)

// Straight-line replays for the grid / enumeration harnesses (no explorer involved).

func init() {
	h := rtHarness("C07")
	h.Replay = func(c *rt.Ctx, raw json.RawMessage) string {
		var sc struct {
			Proto string    `json:"proto"`
			Ops   []wire.Op `json:"ops"`
			Cuts  []int     `json:"cuts"`
		}
		if err := json.Unmarshal(raw, &sc); err != nil {
			return "bad scenario: " + err.Error()
		}
		if len(sc.Ops) == 0 {
			var b struct {
				Byte int `json:"byte"`
			}
			json.Unmarshal(raw, &b)
			sel := disambiguate()
			return fmt.Sprintf("first byte %#x: the accept loop chose the %s parser", b.Byte, sel[byte(b.Byte)])
		}
		var stream []byte
		var ws []want
		for _, op := range sc.Ops {
			stream = append(stream, wire.Encode(sc.Proto, op)...)
			ws = append(ws, expectOf(sc.Proto, op))
		}
		cl, d := parseAll(sc.Proto, stream, sc.Cuts, ws)
		out := fmt.Sprintf("proto=%s requests=%v cuts=%v stream=%q\n", sc.Proto, opsStrings(sc.Ops), sc.Cuts, trunc(stream, 200))
		if cl != "" {
			return "VIOLATION reproduced: " + cl + ": " + d + "\n" + out
		}
		return out + "OK: no finding"
	}
	rt.Register("C07", h)

	h15 := rtHarness("C15")
	h15.Replay = func(c *rt.Ctx, raw json.RawMessage) string {
		var dc disconnectCase
		if err := json.Unmarshal(raw, &dc); err != nil {
			return "bad scenario: " + err.Error()
		}
		proto := "binary"
		if len(dc.Stream) > 0 && dc.Stream[0] != 0x80 {
			proto = "text"
		}
		var res string
		sched.Bubble(c.T, func() {
			d := startDeployment(dc.Cfg, dc.Port)
			synctest.Wait()
			for _, overlap := range []bool{false, true} {
				cl, det := d.runDisconnect(proto, dc.Stream, dc.Cut, overlap)
				if cl != "" {
					res += fmt.Sprintf("VIOLATION reproduced (second client connected: %v): %s: %s\n", overlap, cl, det)
				}
			}
		})
		out := fmt.Sprintf("cfg=%s port=%d stream=%q cut after %d bytes\n", dc.Cfg, dc.Port, dc.Stream, dc.Cut)
		if res != "" {
			return res + out
		}
		return out + "OK: no finding"
	}
	rt.Register("C15", h15)

	h18 := rtHarness("C18")
	h18.Replay = func(c *rt.Ctx, raw json.RawMessage) string {
		var sc struct {
			Race     *metricsRace `json:"metrics_race"`
			Scrape   *scrapeRace  `json:"scrape_race"`
			Value    *uint64      `json:"value"`
			Sampled  bool         `json:"sampled"`
			Previous []uint64     `json:"previous"`
			Obs      []uint64     `json:"observations"`
			K        int          `json:"k"`
			Stride   int          `json:"stride"`
		}
		if err := json.Unmarshal(raw, &sc); err != nil {
			return "bad scenario: " + err.Error()
		}
		switch {
		case sc.Scrape != nil:
			var r *metricsRaceResult
			sched.Bubble(c.T, func() { r = runScrapeRace(*sc.Scrape, sc.Scrape.Choices) })
			out := fmt.Sprintf("program %+v\nschedule: %s\noutcome: %s\n", *sc.Scrape, r.S.Describe(), r.Outcome)
			if len(r.Findings) == 0 {
				return out + "OK: no finding"
			}
			s := "VIOLATION reproduced:\n"
			for _, f := range r.Findings {
				s += "  " + f.Sig + " :: " + f.What + "\n"
			}
			return s + out
		case sc.Race != nil:
			var r *metricsRaceResult
			sched.Bubble(c.T, func() { r = runMetricsRace(*sc.Race, sc.Race.Choices) })
			out := fmt.Sprintf("program %+v\nschedule: %s\noutcome: %s\n", *sc.Race, r.S.Describe(), r.Outcome)
			if len(r.Findings) == 0 {
				return out + "OK: no finding"
			}
			s := "VIOLATION reproduced:\n"
			for _, f := range r.Findings {
				s += "  " + f.Sig + " :: " + f.What + "\n"
			}
			return s + out
		case sc.Value != nil:
			v := *sc.Value
			b := metrics.VerifGetBucket(v)
			bounds := metrics.VerifBucketBounds()
			out := fmt.Sprintf("value %d -> bucket %d (bound %d); lzcnt selected=%d portable=%d\n", v, b, bounds[b], metrics.VerifLzcnt(v), metrics.VerifPortableLzcnt(v))
			if uint64(bounds[b]) < v || metrics.VerifLzcnt(v) != metrics.VerifPortableLzcnt(v) {
				return "VIOLATION reproduced\n" + out
			}
			return out + "OK (monotonicity needs the neighbouring point; see the signature)"
		case sc.K > 0 && sc.Stride > 0:
			if cl, d := ringRefillHistory("verif_replay_refill", sc.Sampled, sc.K, sc.Stride); cl != "" {
				return fmt.Sprintf("VIOLATION reproduced: %s: %s", cl, d)
			}
			return fmt.Sprintf("ring-refill history sampled=%v k=%d: OK: no finding", sc.Sampled, sc.K)
		case len(sc.Obs) > 0:
			id := metrics.AddHistogram("verif_replay", sc.Sampled, nil)
			for _, period := range [][]uint64{sc.Previous, sc.Obs} {
				for _, v := range period {
					metrics.ObserveHist(id, v)
				}
				s := metrics.VerifExtractHist(id)
				st := map[string]uint64{}
				for k, n := range pctlNames {
					st[n] = s.Percentiles[k]
				}
				if cl, d := checkPeriod(period, sc.Sampled, s.Count, s.Kept, st, s.Kept > 0); cl != "" {
					return fmt.Sprintf("VIOLATION reproduced: %s: %s (period %v)", cl, d, period)
				}
			}
			return fmt.Sprintf("periods %v then %v: OK: no finding", sc.Previous, sc.Obs)
		}
		return "nothing to replay for this scenario shape"
	}
	rt.Register("C18", h18)

	h19 := rtHarness("C19")
	h19.Replay = func(c *rt.Ctx, raw json.RawMessage) string {
		var sc struct {
			Labels  []string `json:"labels"`
			Perm    []string `json:"perm"`
			Removed string   `json:"removed"`
			Key     string   `json:"key"`
			Hash    *uint32  `json:"hash"`
		}
		if err := json.Unmarshal(raw, &sc); err != nil {
			return "bad scenario: " + err.Error()
		}
		base := mkRing(sc.Labels)
		other := sc.Perm
		if sc.Removed != "" {
			other = nil
			for _, l := range sc.Labels {
				if l != sc.Removed {
					other = append(other, l)
				}
			}
		}
		if other == nil {
			other = sc.Labels
		}
		r := mkRing(other)
		var a, b string
		if sc.Hash != nil {
			a, b = base.Bucket(*sc.Hash).Label(), r.Bucket(*sc.Hash).Label()
		} else {
			a, b = base.Hash([]byte(sc.Key)).Label(), r.Hash([]byte(sc.Key)).Label()
		}
		out := fmt.Sprintf("nodes %v\nother listing / after removal of %q: %v\nowner before: %s, owner after: %s\n", sc.Labels, sc.Removed, other, a, b)
		if a != b && a != sc.Removed {
			return "VIOLATION reproduced\n" + out
		}
		return out + "OK: same owner"
	}
	rt.Register("C19", h19)
}

// rtHarness fetches the already registered harness so that a replay can be attached to it.
func rtHarness(id string) rt.Harness { return rt.Lookup(id) }
