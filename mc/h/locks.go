package h

import (
	"fmt"
	"sort"
	"sync"

	"github.com/netflix/rend/orcas"

	"verif/sched"
)

// The instrumented lockers are model-free: each wraps the locker rend itself put into the lock
// set and asks the *real* lock whether it is available (TryLock / TryRLock followed by an immediate
// release) when the scheduler evaluates the enabled set. Whatever aliasing structure rend built
// (one mutex for both entries, an RWMutex and its RLocker, or anything a refactor turns it into)
// is therefore exactly what the explored schedules exercise.
type stripe struct {
	idx   int
	origW sync.Locker
	origR sync.Locker
}

// LockMonitor instruments one lock set for one execution.
type LockMonitor struct {
	S       *sched.Sched
	stripes []*stripe
	// per thread: stripes currently held (count per stripe)
	held     map[int]map[int]int
	holders  map[*ilock][]int // thread ids currently holding through this locker
	MaxHeld  int
	Log      []string
	Conform  string // an Unlock without a holder, or a lock that could not be probed
	liveW    []sync.Locker
	liveR    []sync.Locker
	Acquires int
}

type ilock struct {
	m     *LockMonitor
	st    *stripe
	write bool
	orig  sync.Locker
	probe func() bool
}

type tryLocker interface {
	sync.Locker
	TryLock() bool
}

// probeFor returns a function reporting whether orig could be acquired right now.
func probeFor(orig, writeEntry sync.Locker) (func() bool, string) {
	if t, ok := orig.(tryLocker); ok {
		return func() bool {
			if t.TryLock() {
				t.Unlock()
				return true
			}
			return false
		}, ""
	}
	// the read entry of an RWMutex (its RLocker) has no TryLock; probe through the RWMutex
	type tryRLocker interface {
		TryRLock() bool
		RUnlock()
	}
	if rw, ok := writeEntry.(tryRLocker); ok {
		return func() bool {
			if rw.TryRLock() {
				rw.RUnlock()
				return true
			}
			return false
		}, ""
	}
	return func() bool { return true }, fmt.Sprintf("locker of type %T cannot be probed", orig)
}

func (l *ilock) Lock() {
	m, st := l.m, l.st
	kind := "r"
	if l.write {
		kind = "w"
	}
	m.S.Point(fmt.Sprintf("lock-%s[%d]", kind, st.idx), l.probe)
	if m.S.Poisoned() {
		return
	}
	tid := m.S.Current()
	l.orig.Lock() // free by the probe, and no other thread has run since
	m.holders[l] = append(m.holders[l], tid)
	if m.held[tid] == nil {
		m.held[tid] = map[int]int{}
	}
	m.held[tid][st.idx]++
	if n := len(m.held[tid]); n > m.MaxHeld {
		m.MaxHeld = n
	}
	m.Acquires++
	m.Log = append(m.Log, fmt.Sprintf("T%d +%s%d", tid, kind, st.idx))
}

func (l *ilock) Unlock() {
	m, st := l.m, l.st
	kind := "r"
	if l.write {
		kind = "w"
	}
	hs := m.holders[l]
	if len(hs) == 0 {
		if m.Conform == "" && !m.S.Poisoned() {
			m.Conform = fmt.Sprintf("unlock of the %s entry of stripe %d which nobody holds", kind, st.idx)
		}
		return
	}
	// attribute the release to the running thread if it is a holder, else to the oldest holder
	tid, at := hs[0], 0
	cur := m.S.Current()
	for i, h := range hs {
		if h == cur {
			tid, at = h, i
			break
		}
	}
	m.holders[l] = append(hs[:at:at], hs[at+1:]...)
	l.orig.Unlock()
	if h := m.held[tid]; h != nil {
		h[st.idx]--
		if h[st.idx] <= 0 {
			delete(h, st.idx)
		}
	}
	m.Log = append(m.Log, fmt.Sprintf("T%d -%s%d", tid, kind, st.idx))
}

var (
	origMu    sync.Mutex
	origLocks = map[uint32][2][]sync.Locker{}
)

// InstallLockMonitor replaces every locker of the lock set by an instrumented one for the
// duration of one execution.
func InstallLockMonitor(s *sched.Sched, slot uint32) *LockMonitor {
	w, r := orcas.VerifLockSet(slot)
	origMu.Lock()
	o, ok := origLocks[slot]
	if !ok {
		o = [2][]sync.Locker{append([]sync.Locker{}, w...), append([]sync.Locker{}, r...)}
		origLocks[slot] = o
	}
	origMu.Unlock()
	m := &LockMonitor{S: s, held: map[int]map[int]int{}, holders: map[*ilock][]int{}, liveW: w, liveR: r}
	for i := range w {
		st := &stripe{idx: i, origW: o[0][i], origR: o[1][i]}
		m.stripes = append(m.stripes, st)
		pw, e1 := probeFor(o[0][i], o[0][i])
		pr, e2 := probeFor(o[1][i], o[0][i])
		if e1+e2 != "" && m.Conform == "" {
			m.Conform = e1 + e2
		}
		w[i] = &ilock{m: m, st: st, write: true, orig: o[0][i], probe: pw}
		r[i] = &ilock{m: m, st: st, write: false, orig: o[1][i], probe: pr}
	}
	return m
}

// Uninstall puts the original lockers back and releases whatever the execution left locked (a
// leak has been reported by then; the next execution must start from an unlocked lock set).
func (m *LockMonitor) Uninstall() {
	for l, hs := range m.holders {
		for range hs {
			l.orig.Unlock()
		}
	}
	m.holders = map[*ilock][]int{}
	for i, st := range m.stripes {
		m.liveW[i] = st.origW
		m.liveR[i] = st.origR
	}
}

// HeldNow lists thread/stripe pairs still held.
func (m *LockMonitor) HeldNow() []string {
	var out []string
	for l, hs := range m.holders {
		for _, t := range hs {
			kind := "read"
			if l.write {
				kind = "write"
			}
			out = append(out, fmt.Sprintf("stripe %d %s-locked by T%d", l.st.idx, kind, t))
		}
	}
	sort.Strings(out)
	return out
}
