package h

import (
	"fmt"
	"sync"

	"github.com/netflix/rend/orcas"

	"verif/sched"
)

// stripe models one slot of a lock set. shared=true when rend built it from a sync.RWMutex and
// its RLocker (multi-reader), false when both entries are the same sync.Mutex (single-reader).
type stripe struct {
	idx     int
	shared  bool
	writer  int // thread id holding the write lock, -1 if none
	readers map[int]int
	realM   *sync.Mutex
	realRW  *sync.RWMutex
}

// LockMonitor instruments one lock set for one execution.
type LockMonitor struct {
	S       *sched.Sched
	stripes []*stripe
	// per thread: stripes currently held
	held     map[int]map[int]int
	MaxHeld  int
	Log      []string
	Conform  string // first disagreement between the scheduler's lock model and the real mutex
	origW    []sync.Locker
	origR    []sync.Locker
	liveW    []sync.Locker
	liveR    []sync.Locker
	Acquires int
}

type ilock struct {
	m     *LockMonitor
	st    *stripe
	write bool
}

func (l *ilock) Lock() {
	m, st := l.m, l.st
	tid := m.S.Current()
	excl := l.write || !st.shared
	kind := "r"
	if excl {
		kind = "w"
	}
	m.S.Point(fmt.Sprintf("lock-%s[%d]", kind, st.idx), func() bool {
		if excl {
			return st.writer == -1 && len(st.readers) == 0
		}
		return st.writer == -1
	})
	if m.S.Poisoned() {
		return
	}
	tid = m.S.Current()
	ok := true
	if excl {
		st.writer = tid
		if st.shared {
			ok = st.realRW.TryLock()
		} else {
			ok = st.realM.TryLock()
		}
	} else {
		st.readers[tid]++
		ok = st.realRW.TryRLock()
	}
	if !ok && m.Conform == "" {
		m.Conform = fmt.Sprintf("scheduler granted %s-lock on stripe %d to T%d but the real mutex is not available", kind, st.idx, tid)
	}
	if m.held[tid] == nil {
		m.held[tid] = map[int]int{}
	}
	m.held[tid][st.idx]++
	if n := len(m.held[tid]); n > m.MaxHeld {
		m.MaxHeld = n
	}
	m.Acquires++
	m.Log = append(m.Log, fmt.Sprintf("T%d +%s%d", tid, kind, st.idx))
}

func (l *ilock) Unlock() {
	m, st := l.m, l.st
	excl := l.write || !st.shared
	if excl {
		tid := st.writer
		if tid == -1 {
			if m.Conform == "" && !m.S.Poisoned() {
				m.Conform = fmt.Sprintf("unlock of stripe %d which is not write-locked", st.idx)
			}
			return
		}
		st.writer = -1
		if st.shared {
			st.realRW.Unlock()
		} else {
			st.realM.Unlock()
		}
		m.release(tid, st.idx, "w")
		return
	}
	// a read unlock: attribute it to the running thread if it holds one, else to any reader
	tid := m.S.Current()
	if st.readers[tid] == 0 {
		for t := range st.readers {
			tid = t
			break
		}
	}
	if st.readers[tid] == 0 {
		if m.Conform == "" && !m.S.Poisoned() {
			m.Conform = fmt.Sprintf("read-unlock of stripe %d which has no reader", st.idx)
		}
		return
	}
	st.readers[tid]--
	if st.readers[tid] == 0 {
		delete(st.readers, tid)
	}
	st.realRW.RUnlock()
	m.release(tid, st.idx, "r")
}

func (m *LockMonitor) release(tid, idx int, kind string) {
	if h := m.held[tid]; h != nil {
		h[idx]--
		if h[idx] <= 0 {
			delete(h, idx)
		}
	}
	m.Log = append(m.Log, fmt.Sprintf("T%d -%s%d", tid, kind, idx))
}

var (
	origMu    sync.Mutex
	origLocks = map[uint32][2][]sync.Locker{}
)

// InstallLockMonitor replaces every locker of the lock set by an instrumented one for the
// duration of one execution. The aliasing structure rend built (same Mutex for read and write,
// or RWMutex + its RLocker) is inspected on the original elements and preserved.
func InstallLockMonitor(s *sched.Sched, slot uint32) *LockMonitor {
	w, r := orcas.VerifLockSet(slot)
	origMu.Lock()
	o, ok := origLocks[slot]
	if !ok {
		o = [2][]sync.Locker{append([]sync.Locker{}, w...), append([]sync.Locker{}, r...)}
		origLocks[slot] = o
	}
	origMu.Unlock()
	m := &LockMonitor{S: s, held: map[int]map[int]int{}, origW: o[0], origR: o[1], liveW: w, liveR: r}
	for i := range w {
		st := &stripe{idx: i, writer: -1, readers: map[int]int{}}
		switch ow := o[0][i].(type) {
		case *sync.Mutex:
			if or, ok := o[1][i].(*sync.Mutex); !ok || or != ow {
				panic("lock set: read entry is not the same mutex as the write entry")
			}
			st.realM = &sync.Mutex{}
		case *sync.RWMutex:
			st.shared = true
			st.realRW = &sync.RWMutex{}
		default:
			panic(fmt.Sprintf("lock set: unexpected locker type %T", ow))
		}
		m.stripes = append(m.stripes, st)
		w[i] = &ilock{m: m, st: st, write: true}
		r[i] = &ilock{m: m, st: st, write: false}
	}
	return m
}

// Uninstall puts the original lockers back.
func (m *LockMonitor) Uninstall() {
	for i := range m.liveW {
		m.liveW[i] = m.origW[i]
		m.liveR[i] = m.origR[i]
	}
}

// HeldNow lists thread/stripe pairs still held.
func (m *LockMonitor) HeldNow() []string {
	var out []string
	for i, st := range m.stripes {
		if st.writer != -1 {
			out = append(out, fmt.Sprintf("stripe %d write-locked by T%d", i, st.writer))
		}
		for t := range st.readers {
			out = append(out, fmt.Sprintf("stripe %d read-locked by T%d", i, t))
		}
	}
	return out
}
