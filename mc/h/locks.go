package h

import (
	"fmt"
	"runtime"
	"sort"
	"sync"

	"github.com/netflix/rend/orcas"

	"verif/sched"
)

// The instrumented lockers are model-free: each wraps the locker rend itself put into the lock
// set and asks the *real* lock whether it is available (TryLock / TryRLock followed by an immediate
// release) when the scheduler evaluates the enabled set. Whatever aliasing structure rend built
// (one mutex for both entries, an RWMutex and its RLocker, or anything a refactor turns it into)
// is therefore exactly what the explored schedules exercise.
type stripe struct {
	idx   int
	origW sync.Locker
	origR sync.Locker
}

// LockMonitor instruments one lock set for one execution.
type LockMonitor struct {
	S       *sched.Sched
	stripes []*stripe
	// per thread: stripes currently held (count per stripe)
	held     map[int]map[int]int
	holders  map[*ilock][]int // thread ids currently holding through this locker
	MaxHeld  int
	Log      []string
	Conform  string // an Unlock without a holder, or a lock that could not be probed
	liveW    []sync.Locker
	liveR    []sync.Locker
	Acquires int
}

type ilock struct {
	m     *LockMonitor
	st    *stripe
	write bool
	orig  sync.Locker
	probe func() bool
}

type tryLocker interface {
	sync.Locker
	TryLock() bool
}

// probeFor returns a function reporting whether orig could be acquired right now.
func probeFor(orig, writeEntry sync.Locker) (func() bool, string) {
	if t, ok := orig.(tryLocker); ok {
		return func() bool {
			if t.TryLock() {
				t.Unlock()
				return true
			}
			return false
		}, ""
	}
	// the read entry of an RWMutex (its RLocker) has no TryLock; probe through the RWMutex
	type tryRLocker interface {
		TryRLock() bool
		RUnlock()
	}
	if rw, ok := writeEntry.(tryRLocker); ok {
		return func() bool {
			if rw.TryRLock() {
				rw.RUnlock()
				return true
			}
			return false
		}, ""
	}
	return func() bool { return true }, fmt.Sprintf("locker of type %T cannot be probed", orig)
}

func (l *ilock) Lock() {
	m, st := l.m, l.st
	kind := "r"
	if l.write {
		kind = "w"
	}
	m.S.Point(fmt.Sprintf("lock-%s[%d]", kind, st.idx), l.probe)
	if m.S.Poisoned() {
		return
	}
	l.orig.Lock() // free by the probe, and no other thread has run since
	l.took(kind)
}

// took records that the calling thread now holds the lock.
func (l *ilock) took(kind string) {
	m, st := l.m, l.st
	tid := m.S.Who()
	m.holders[l] = append(m.holders[l], tid)
	if m.held[tid] == nil {
		m.held[tid] = map[int]int{}
	}
	m.held[tid][st.idx]++
	if n := len(m.held[tid]); n > m.MaxHeld {
		m.MaxHeld = n
	}
	m.Acquires++
	m.Log = append(m.Log, fmt.Sprintf("T%d +%s%d", tid, kind, st.idx))
}

func (l *ilock) Unlock() {
	m, st := l.m, l.st
	kind := "r"
	if l.write {
		kind = "w"
	}
	hs := m.holders[l]
	if len(hs) == 0 {
		if m.Conform == "" && !m.S.Poisoned() {
			m.Conform = fmt.Sprintf("unlock of the %s entry of stripe %d which nobody holds", kind, st.idx)
		}
		return
	}
	// attribute the release to the running thread if it is a holder, else to the oldest holder
	tid, at := hs[0], 0
	cur := m.S.Who()
	for i, h := range hs {
		if h == cur {
			tid, at = h, i
			break
		}
	}
	m.holders[l] = append(hs[:at:at], hs[at+1:]...)
	l.orig.Unlock()
	if h := m.held[tid]; h != nil {
		h[st.idx]--
		if h[st.idx] <= 0 {
			delete(h, st.idx)
		}
	}
	m.Log = append(m.Log, fmt.Sprintf("T%d -%s%d", tid, kind, st.idx))
}

// ilockTry is the instrumented form of a locker that also offers TryLock (sync.Mutex,
// sync.RWMutex): code that type-asserts for it must find it exactly where rend's own locker has it.
type ilockTry struct{ *ilock }

func (l ilockTry) TryLock() bool {
	m, st := l.m, l.st
	kind := "r"
	if l.write {
		kind = "w"
	}
	m.S.Point(fmt.Sprintf("trylock-%s[%d]", kind, st.idx), nil)
	if m.S.Poisoned() {
		return false
	}
	t, _ := l.orig.(tryLocker)
	if !t.TryLock() {
		return false
	}
	l.took(kind)
	return true
}

func instrument(l *ilock) sync.Locker {
	if _, ok := l.orig.(tryLocker); ok {
		return ilockTry{l}
	}
	return l
}

var (
	origMu    sync.Mutex
	origLocks = map[uint32][2][]sync.Locker{}
)

// InstallLockMonitor replaces every locker of the lock set by an instrumented one for the
// duration of one execution.
func InstallLockMonitor(s *sched.Sched, slot uint32) *LockMonitor {
	w, r := orcas.VerifLockSet(slot)
	origMu.Lock()
	o, ok := origLocks[slot]
	stale := false
	switch w[0].(type) {
	case *ilock, ilockTry:
		stale = true
	}
	if !stale || !ok || len(o[0]) != len(w) {
		// the live set holds rend's own lockers (always the case for a deployment the real main
		// program has just built; otherwise unless an earlier execution was torn down half-way)
		o = [2][]sync.Locker{append([]sync.Locker{}, w...), append([]sync.Locker{}, r...)}
		origLocks[slot] = o
	}
	origMu.Unlock()
	m := &LockMonitor{S: s, held: map[int]map[int]int{}, holders: map[*ilock][]int{}, liveW: w, liveR: r}
	for i := range w {
		st := &stripe{idx: i, origW: o[0][i], origR: o[1][i]}
		m.stripes = append(m.stripes, st)
		pw, e1 := probeFor(o[0][i], o[0][i])
		pr, e2 := probeFor(o[1][i], o[0][i])
		if e1+e2 != "" && m.Conform == "" {
			m.Conform = e1 + e2
		}
		w[i] = instrument(&ilock{m: m, st: st, write: true, orig: o[0][i], probe: pw})
		r[i] = instrument(&ilock{m: m, st: st, write: false, orig: o[1][i], probe: pr})
	}
	return m
}

// Uninstall puts the original lockers back and releases whatever the execution left locked (a
// leak has been reported by then; the next execution must start from an unlocked lock set).
func (m *LockMonitor) Uninstall() {
	for l, hs := range m.holders {
		for range hs {
			l.orig.Unlock()
		}
	}
	m.holders = map[*ilock][]int{}
	for i, st := range m.stripes {
		m.liveW[i] = st.origW
		m.liveR[i] = st.origR
	}
}

// HeldNow lists thread/stripe pairs still held.
func (m *LockMonitor) HeldNow() []string {
	var out []string
	for l, hs := range m.holders {
		for _, t := range hs {
			kind := "read"
			if l.write {
				kind = "write"
			}
			out = append(out, fmt.Sprintf("stripe %d %s-locked by T%d", l.st.idx, kind, t))
		}
	}
	sort.Strings(out)
	return out
}

// Sequential harnesses (one command at a time) run on rend's own lockers; a command that asks for
// a lock that is not free can only be waiting for a lock its own connection holds (or that an
// earlier command leaked), which the real mutex would turn into a silent hang. seqGuard turns it
// into a finding and ends the goroutine.
type seqGuard struct {
	orig  sync.Locker
	probe func() bool
	idx   int
	write bool
	g     *SeqLockGuard
	held  int
}

// SeqLockGuard guards one lock set for one sequential execution.
type SeqLockGuard struct {
	Trouble string
	guards  []*seqGuard
	liveW   []sync.Locker
	liveR   []sync.Locker
	origW   []sync.Locker
	origR   []sync.Locker
}

func (l *seqGuard) Lock() {
	if !l.probe() {
		kind := "read"
		if l.write {
			kind = "write"
		}
		if l.g.Trouble == "" {
			l.g.Trouble = fmt.Sprintf("a command asked for the %s lock of stripe %d while it was not free, with no other command in flight: it waits for a lock its own connection holds or that an earlier command never released", kind, l.idx)
		}
		runtime.Goexit()
	}
	l.orig.Lock()
	l.held++
}

func (l *seqGuard) Unlock() {
	l.held--
	l.orig.Unlock()
}

// InstallSeqLockGuard wraps every locker of the lock set; call Uninstall afterwards.
func InstallSeqLockGuard(slot uint32) *SeqLockGuard {
	w, r := orcas.VerifLockSet(slot)
	g := &SeqLockGuard{liveW: w, liveR: r}
	if _, stale := w[0].(*seqGuard); stale {
		return g // an earlier execution of this process is still installed (never the case in practice)
	}
	g.origW, g.origR = append([]sync.Locker{}, w...), append([]sync.Locker{}, r...)
	for i := range w {
		pw, _ := probeFor(g.origW[i], g.origW[i])
		pr, _ := probeFor(g.origR[i], g.origW[i])
		gw := &seqGuard{orig: g.origW[i], probe: pw, idx: i, write: true, g: g}
		gr := &seqGuard{orig: g.origR[i], probe: pr, idx: i, write: false, g: g}
		g.guards = append(g.guards, gw, gr)
		w[i], r[i] = gw, gr
	}
	return g
}

// Uninstall puts rend's lockers back and releases what the execution left locked.
func (g *SeqLockGuard) Uninstall() {
	for _, l := range g.guards {
		for ; l.held > 0; l.held-- {
			l.orig.Unlock()
		}
	}
	for i := range g.origW {
		g.liveW[i], g.liveR[i] = g.origW[i], g.origR[i]
	}
}
