package h

import (
	"encoding/json"
	"fmt"
	"runtime"
	"strings"
	"sync"
	"testing/synctest"
	"time"

	"github.com/netflix/rend/protocol/binprot"
	"github.com/netflix/rend/verifshim/vsync"

	"verif/fakemc"
	"verif/rt"
	"verif/sched"
	"verif/wire"
)

func init() {
	rt.Register("C14", rt.Harness{Run: runC14, Replay: replayC14})
	rt.Register("C14R", rt.Harness{Run: runC14Race})
}

// poisonPooled scribbles over an object that has been returned to a pool: any later use of it by
// the code that returned it becomes visible (wrong lengths, wrong status).
func poisonPooled(x interface{}) {
	switch v := x.(type) {
	case *binprot.ResponseHeader:
		v.Magic, v.Opcode, v.KeyLength, v.ExtraLength, v.Status, v.TotalBodyLength, v.OpaqueToken = 0xDB, 0xDB, 0xDBDB, 0xDB, 0xDBDB, 0x00DBDBDB, 0xDBDBDBDB
	case *binprot.RequestHeader:
		v.Magic, v.Opcode, v.KeyLength, v.ExtraLength, v.TotalBodyLength, v.OpaqueToken = 0xDB, 0xDB, 0xDBDB, 0xDB, 0x00DBDBDB, 0xDBDBDBDB
	case []byte:
		for i := range v {
			v[i] = 0xDB
		}
	}
}

type poisonHooks struct {
	*ShimHooks
}

func (p poisonHooks) PoolPut(pl *vsync.Pool, x interface{}) bool {
	if p.S.Current() < 0 {
		return false
	}
	ok := p.ShimHooks.PoolPut(pl, x)
	poisonPooled(x)
	return ok
}

// IsoScenario: connections working on private keys.
type IsoScenario struct {
	Cfg     Cfg         `json:"cfg"`
	Threads [][]wire.Op `json:"threads"`
	Choices []int       `json:"choices"`
	NoPool  bool        `json:"noPool,omitempty"` // reference mode: real pools, no scheduler hooks on pools
	// Full: a short program explored in all its interleavings, whatever the preemption bound of the tier
	Full bool `json:"full,omitempty"`
	// CutGet: the backend connection that is asked to read a key with this prefix dies after CutAt
	// bytes of that reply (inside the value of a hit). Keyed by key, not by connection, so that the
	// connection meets the same fault when it runs alone (the reference).
	CutGet string `json:"cutGet,omitempty"`
	CutAt  int    `json:"cutAt,omitempty"`
}

type isoResult struct {
	S        *sched.Sched
	Trans    []string // per thread transcript
	Findings []Finding
	Diag     string
}

func isoPrograms(bin bool) [][]wire.Op {
	prog := func(i int) []wire.Op {
		k, m := fmt.Sprintf("k%d", i), fmt.Sprintf("m%d", i)
		big := strings.Repeat(fmt.Sprintf("%d", i), 40+i)
		ops := []wire.Op{
			{Kind: "add", Key: k, Val: big, Flags: uint32(100 + i)},
			{Kind: "add", Key: k, Val: "again"}, // exists: error reply with a body from the backend
			{Kind: "delete", Key: m},            // miss: error reply with a body
			{Kind: "get", Key: k},               // hit
			{Kind: "append", Key: m, Val: "zz"}, // miss
			{Kind: "mget", Keys: []string{m, k}, Quiet: []bool{bin, false}},
		}
		if bin {
			// a quiet batch closed by a no-op: the terminator is a frame of its own
			ops = append(ops, wire.Op{Kind: "mget", Keys: []string{k, m, k}, Quiet: []bool{true, true, true}, NoopEnd: true})
		} else {
			ops = append(ops, wire.Op{Kind: "mget", Keys: []string{k, m, k}})
		}
		return ops
	}
	progs := [][]wire.Op{prog(0), prog(1), prog(2)}
	// connection 0 is a client that fills in the CAS field of its requests (legal; rend ignores
	// it): nothing of it may reach another connection or the backend
	for i := range progs[0] {
		progs[0][i].CAS = 0xC0FFEE0000000000 + uint64(i)
	}
	return progs
}

// runIso executes the scenario. In reference mode each thread is run alone, sequentially.
func runIso(sc IsoScenario, prefix []int, only int) *isoResult {
	res := &isoResult{}
	w := NewWorld(sc.Cfg)
	defer w.Release()
	s := sched.New(prefix)
	res.S = s
	var hk *ShimHooks
	if !sc.NoPool {
		hk = InstallShimHooks(s)
		hk.PoolPoints = !sc.Full // (all interleavings of a short program: at lock and backend-request granularity)
		vsync.H = poisonHooks{hk}
		defer hk.Uninstall()
	}
	cutIfAsked := func(c *fakemc.Conn, f *fakemc.Frame) {
		if sc.CutGet != "" && strings.HasPrefix(string(f.Key), sc.CutGet) && strings.HasPrefix(frameTag(f), "g") {
			c.FaultNext(fakemc.Fault{Kind: fakemc.FCloseAfterBytes, K: sc.CutAt})
		}
	}
	w.ConnHook = func(tier int, c *fakemc.Conn) {
		c.Before = func(c *fakemc.Conn, f *fakemc.Frame) {
			if !sc.NoPool {
				s.Point(fmt.Sprintf("L%d:%s", tier, frameTag(f)), nil)
			}
			cutIfAsked(c, f)
		}
	}
	if sc.Cfg.Lock != "none" {
		// real mutexes must never block under the cooperative scheduler: instrumented lockers
		mon := InstallLockMonitor(s, w.LockSlot())
		defer mon.Uninstall()
		for _, extra := range w.ExtraLockSlots() {
			defer InstallLockMonitor(s, extra).Uninstall()
		}
	}
	sessions := make([]*Session, len(sc.Threads))
	for ti, ops := range sc.Threads {
		if only >= 0 && ti != only {
			continue
		}
		ti, ops := ti, ops
		s.Go(ti, func() {
			sess := w.Connect(0)
			sessions[ti] = sess
			for oi, op := range ops {
				op.Opaque = uint32(0x1000*(ti+1) + 16*oi)
				sess.Do(op)
				if sess.Ended {
					break
				}
			}
			sess.Hangup()
		})
	}
	s.Run()
	res.Trans = make([]string, len(sc.Threads))
	for ti, sess := range sessions {
		if sess == nil {
			continue
		}
		reps, _, _ := sess.Replies()
		var o []string
		for _, r := range reps {
			o = append(o, r.Canon())
		}
		res.Trans[ti] = strings.Join(o, " ; ")
		if sess.Panics != nil {
			res.Trans[ti] += fmt.Sprintf(" PANIC:%v", sess.Panics)
		}
	}
	hung, spun, bad, residue := w.Diag()
	res.Diag = fmt.Sprintf("hung=%v spun=%v garbage=%v residue=%d deadlock=%v", hung, spun, bad, residue, s.Deadlock)
	return res
}

var (
	isoRefMu sync.Mutex
	isoRef   = map[string][]string{}
)

// isoReference: each connection alone, real pools, no scheduler points on pools.
func isoReference(c *rt.Ctx, sc IsoScenario) []string {
	key := fmt.Sprintf("%s|%v|%s|%d", sc.Cfg, sc.Threads, sc.CutGet, sc.CutAt)
	isoRefMu.Lock()
	defer isoRefMu.Unlock()
	if r, ok := isoRef[key]; ok {
		return r
	}
	ref := make([]string, len(sc.Threads))
	for ti := range sc.Threads {
		rsc := sc
		rsc.NoPool = true
		var r *isoResult
		sched.Bubble(c.T, func() { r = runIso(rsc, nil, ti) })
		ref[ti] = r.Trans[ti] + " [" + r.Diag + "]"
	}
	isoRef[key] = ref
	return ref
}

func replayC14(c *rt.Ctx, raw json.RawMessage) string {
	var sc IsoScenario
	if err := json.Unmarshal(raw, &sc); err != nil {
		return "bad scenario: " + err.Error()
	}
	ref := isoReference(c, sc)
	var r *isoResult
	sched.Bubble(c.T, func() { r = runIso(sc, sc.Choices, -1) })
	out := fmt.Sprintf("cfg=%s\nschedule: %s\n", sc.Cfg, r.S.Describe())
	bad := false
	for ti := range sc.Threads {
		got := r.Trans[ti] + " [" + r.Diag + "]"
		out += fmt.Sprintf("  T%d alone : %s\n  T%d shared: %s\n", ti, ref[ti], ti, got)
		if !sameTranscript(ref[ti], r.Trans[ti]) {
			bad = true
		}
	}
	if bad || strings.Contains(r.Diag, "true") {
		return "VIOLATION reproduced: a connection's transcript differs from its transcript when run alone\n" + out
	}
	return out + "OK: no finding"
}

func sameTranscript(ref, got string) bool {
	i := strings.LastIndex(ref, " [")
	return ref[:i] == got
}

func runC14(c *rt.Ctx) {
	var cfgs []Cfg
	for _, o := range []string{"l1only", "l1l2"} {
		for _, h := range []string{"std", "chunked"} {
			cfgs = append(cfgs, Cfg{Orca: o, Lock: "none", Proto: "binary", L1H: h})
		}
	}
	cfgs = append(cfgs, Cfg{Orca: "l1l2", Lock: "none", Proto: "text", L1H: "std"}, Cfg{Orca: "l1l2b", Lock: "multi", Proto: "binary", L1H: "std"},
		// what memproxy --chunked --locked deploys, with a one-stripe lock table: private keys of
		// different connections share the stripe
		Cfg{Orca: "l1only", Lock: "single", Proto: "binary", L1H: "chunked", Conc: 0},
		// the text protocol under the locking wrapper (every get reply ends in a terminator line), and
		// the deployment as the real main program builds it
		Cfg{Orca: "l1l2b", Lock: "multi", Proto: "text", L1H: "std", Conc: 4},
		Cfg{Orca: "l1only", Lock: "single", Proto: "text", L1H: "std", Conc: 2, App: true},
		Cfg{Orca: "l1l2b", Lock: "multi", Proto: "binary", L1H: "std", Conc: 2, App: true})
	bound := 1
	maxExecs := 4000
	if c.Thorough() {
		bound, maxExecs = 2, 60000
	}
	item := 0
	stalledReader(c, &item)
	comingAndGoing(c, &item)
	for _, cfg := range cfgs {
		progs := isoPrograms(cfg.Proto == "binary")
		// two- and three-connection programs; each connection runs a window of its command list
		var scs []IsoScenario
		for start := 0; start+2 <= len(progs[0]); start++ {
			scs = append(scs, IsoScenario{Cfg: cfg, Threads: [][]wire.Op{progs[0][start : start+2], progs[1][start : start+2]}})
		}
		scs = append(scs, IsoScenario{Cfg: cfg, Threads: [][]wire.Op{progs[0][:3], progs[1][1:4], progs[2][2:5]}})
		if cfg.Lock != "none" && cfg.Proto == "binary" {
			// one connection provokes a failure below the lock table (the chunked backend does not
			// support get-with-expiry and panics; with std it simply works) while another works
			// on its own key: the other connection must see what it sees alone
			scs = append(scs, IsoScenario{Cfg: cfg, Threads: [][]wire.Op{
				{{Kind: "set", Key: "c0-k", Val: "v0", Flags: 1}, {Kind: "gete", Key: "c0-k"}, {Kind: "get", Key: "c0-k"}},
				{{Kind: "set", Key: "c1-k", Val: "v1", Flags: 2}, {Kind: "get", Key: "c1-k"}, {Kind: "delete", Key: "c1-k"}}}})
		}
		if cfg.Proto == "binary" || cfg.Orca == "l1l2" {
			// a fault on one connection: its backend connection dies inside the value of a get hit
			// (after the reply header and extras, at three depths); the other connections, on
			// keys of their own, must see what they see alone, and nothing pooled may be handed
			// back twice on the failure path
			for _, at := range []int{24, 28, 31} {
				scs = append(scs, IsoScenario{Cfg: cfg, CutGet: "cut-", CutAt: at, Threads: [][]wire.Op{
					{{Kind: "set", Key: "cut-k", Val: "AAAAAAAAAA", Flags: 1}, {Kind: "get", Key: "cut-k"}},
					{{Kind: "set", Key: "c1-k", Val: "BBBBBBBBBB", Flags: 2}, {Kind: "get", Key: "c1-k"}, {Kind: "get", Key: "c1-k"}},
					{{Kind: "set", Key: "c2-k", Val: "CCCCCCCCCC", Flags: 3}, {Kind: "get", Key: "c2-k"}}}})
			}
		}
		if cfg.Lock != "none" {
			// one command per connection, all interleavings: a multi-key get (which the locking wrapper
			// serves key by key, steering the terminator with per-connection state) next to another
			// connection's get, multi-key get or write on keys of its own
			multi := func(i int) wire.Op {
				k, m := fmt.Sprintf("k%d", i), fmt.Sprintf("m%d", i)
				return wire.Op{Kind: "mget", Keys: []string{m, k}, Quiet: []bool{cfg.Proto == "binary", false}}
			}
			for _, other := range []wire.Op{{Kind: "get", Key: "k1"}, multi(1), {Kind: "set", Key: "k1", Val: "v"}} {
				scs = append(scs, IsoScenario{Cfg: cfg, Threads: [][]wire.Op{{multi(0)}, {other}}, Full: true})
			}
		}
		for _, sc := range scs {
			item++
			if !c.Mine(item) {
				continue
			}
			if c.Expired() {
				return
			}
			ref := isoReference(c, sc)
			ex := &sched.Explorer{Bound: bound, MaxExecs: maxExecs, Expired: c.Expired}
			if sc.Full {
				ex.Bound, ex.MaxExecs = -1, 60000
			}
			outs := map[string]bool{}
			violated := false
			ex.Explore(func(prefix []int) *sched.Sched {
				var r *isoResult
				sched.Bubble(c.T, func() { r = runIso(sc, prefix, -1) })
				c.Eval(1)
				c.Trace(1)
				c.Trans(int64(len(r.S.Trace)))
				outs[strings.Join(r.Trans, "||")] = true
				if dp := vsync.TakeDoublePuts(); len(dp) > 0 && !violated {
					scc := sc
					scc.Choices = r.S.Choices()
					violated = true
					c.Violation(fmt.Sprintf("C14 pooled-object-put-twice cfg=%s", cfgClass(sc.Cfg)), "a pooled object was returned to its pool while already in it; two connections will be handed the same object: "+dp[0], scc)
				}
				for ti := range sc.Threads {
					if !sameTranscript(ref[ti], r.Trans[ti]) {
						scc := sc
						scc.Choices = r.S.Choices()
						kinds := []string{}
						for _, o := range sc.Threads[ti] {
							kinds = append(kinds, o.Kind)
						}
						violated = true
						c.Violation(fmt.Sprintf("C14 transcript-differs cfg=%s conn-ops=%s", cfgClass(sc.Cfg), strings.Join(kinds, ",")),
							fmt.Sprintf("connection %d alone: %s\nwith the others (pooled objects shared and scribbled over on Put): %s [%s]\nschedule: %s", ti, ref[ti], r.Trans[ti], r.Diag, r.S.Describe()), scc)
						break
					}
				}
				return r.S
			}, func(s *sched.Sched) bool { return !violated }) // a violating program need not be enumerated further
			if ex.Truncated {
				c.Cap(fmt.Sprintf("schedule cap %d reached (preemption bound %d not completed) for a program of %s", ex.MaxExecs, ex.Bound, cfg))
			}
			key := fmt.Sprintf("%s|%v", cfg, sc.Threads)
			c.Distinct(key)
			c.Nontrivial(key)
			c.State(int64(len(outs)))
			if item%3 == 0 {
				c.Sample(map[string]interface{}{"cfg": cfg.String(), "connections": sc.Threads, "schedules": ex.Execs, "reference_transcripts": ref})
			}
		}
	}
	c.Set("preemption_bound", bound)
}

// busyLockHooks turns "a goroutine asks for a lock that is held while nothing else can run" (a real
// mutex would simply hang the bubble) into a note and the end of that goroutine.
type busyLockHooks struct{ note *string }

func (b busyLockHooks) Acquire(m interface{}, write bool) {
	free := true
	switch l := m.(type) {
	case *vsync.RWMutex:
		if write {
			if free = l.TryLock(); free {
				l.Unlock()
			}
		} else if free = l.TryRLock(); free {
			l.RUnlock()
		}
	case *vsync.Mutex:
		if free = l.TryLock(); free {
			l.Unlock()
		}
	}
	if !free {
		if *b.note == "" {
			*b.note = fmt.Sprintf("a lock (%T) is held while a client is not reading its reply, and another connection needs it", m)
		}
		runtime.Goexit()
	}
}
func (b busyLockHooks) Acquired(m interface{}, write bool)        {}
func (b busyLockHooks) Release(m interface{}, write bool)         {}
func (b busyLockHooks) PoolGet(p *vsync.Pool) (interface{}, bool) { return nil, false }
func (b busyLockHooks) PoolPut(p *vsync.Pool, x interface{}) bool { return false }

// stalledReader: one client asks for many values and stops reading its reply; whatever the server
// holds on to while it waits for that client (a lock of a shared backend, a shared buffer), other
// connections must be served as if it were not there. Deployments whose connections have backends of
// their own, and the shared in-process backend.
func stalledReader(c *rt.Ctx, item *int) {
	cfgs := []Cfg{{Orca: "l1only", Lock: "none", Proto: "text", L1H: "std"}, {Orca: "l1l2", Lock: "none", Proto: "binary", L1H: "std"},
		{Orca: "l1only", Lock: "none", Proto: "binary", L1H: "chunked"}, {Orca: "l1only", Lock: "none", Proto: "text", L1H: "inmem", App: true},
		{Orca: "l1only", Lock: "none", Proto: "binary", L1H: "inmem", App: true}, {Orca: "l1only", Lock: "none", Proto: "binary", L1H: "batched"}}
	for _, cfg := range cfgs {
		for _, nkeys := range []int{8, 40, 100} {
			*item++
			if !c.Mine(*item) || c.Expired() {
				continue
			}
			var problem string
			sched.Bubble(c.T, func() {
				w := NewWorld(cfg)
				defer w.Release()
				a, b := w.Connect(0), w.Connect(0)
				var keys []string
				var quiet []bool
				for i := 0; i < nkeys; i++ {
					k := fmt.Sprintf("s%03d", i)
					keys = append(keys, k)
					quiet = append(quiet, cfg.Proto == "binary" && i < nkeys-1)
					a.Do(wire.Op{Kind: "set", Key: k, Val: strings.Repeat("v", 120), Flags: uint32(i), Opaque: uint32(16 * i)})
				}
				big := wire.Op{Kind: "mget", Keys: keys, Quiet: quiet, Opaque: 0x4000}
				a.Cli.StopReading(300)
				a.FeedOp(big)
				synctest.Wait()
				for i := 0; i < 50 && !a.Cli.IsStalled(); i++ {
					time.Sleep(time.Millisecond) // the batching pool sends after its (virtual) batch delay
					synctest.Wait()
				}
				if !a.Cli.IsStalled() {
					problem = "harness: the big reply did not reach the point where the client stops reading"
					a.Cli.Unstall()
					return
				}
				var held string
				vsync.H = busyLockHooks{&held}
				defer func() { vsync.H = nil }()
				// the others go on: a write, a read of a stored key, a read of a missing key
				follow := []wire.Op{{Kind: "set", Key: "other", Val: "o", Flags: 3, Opaque: 0x10}, {Kind: "get", Key: keys[0], Opaque: 0x20}, {Kind: "get", Key: "nokey", Opaque: 0x30}}
				for _, op := range follow {
					from := len(b.Cli.Out)
					b.FeedOp(op)
					synctest.Wait()
					for i := 0; i < 50 && len(b.Cli.Out) == from; i++ {
						time.Sleep(time.Millisecond)
						synctest.Wait()
					}
					if len(b.Cli.Out) == from {
						problem = fmt.Sprintf("while one client does not read its %d-key reply, another connection's %s gets no answer %s", nkeys, op.Kind, held)
						break
					}
				}
				a.Cli.Unstall()
				synctest.Wait()
				if problem == "" {
					ra, _, _ := a.Replies()
					if last := ra[len(ra)-1]; last.Class != "values" || len(last.Hits) != nkeys || last.Malformed != "" {
						problem = fmt.Sprintf("after the client read on, its reply is %s", last.Canon())
					}
					rb, _, _ := b.Replies()
					if rb[0].Class != "ok" || len(rb[1].Hits) != 1 || rb[2].Class != "values" {
						problem = fmt.Sprintf("the other connection was answered %s | %s | %s", rb[0].Canon(), rb[1].Canon(), rb[2].Canon())
					}
				}
				a.Hangup()
				b.Hangup()
			})
			c.Eval(1)
			c.Distinct(fmt.Sprintf("stalled|%s|%d", cfg, nkeys))
			c.Nontrivial(fmt.Sprintf("stalled|%s|%d", cfg, nkeys))
			if problem != "" {
				c.Violation(fmt.Sprintf("C14 stalled-reader-blocks-others cfg=%s", cfgClass(cfg)), problem, map[string]interface{}{"cfg": cfg, "keys": nkeys})
			}
		}
	}
}

// comingAndGoing: two clients arrive, work and leave in every order. A's and B's steps are fixed
// (connect, set, get, [B: leave], [A: two more commands]); every interleaving of the two step lists is
// run, one step at a time. A client that connects and stays silent while another connects, or goes on
// after the other has left, must be answered exactly as when it is alone: whatever a deployment builds
// per connection (handlers, backend connections, wrapper state) belongs to that connection only.
func comingAndGoing(c *rt.Ctx, item *int) {
	cfgs := []Cfg{
		{Orca: "l1only", Lock: "none", Proto: "text", L1H: "std", App: true},
		{Orca: "l1l2", Lock: "multi", Proto: "binary", L1H: "std", App: true},
		{Orca: "l1l2", Lock: "none", Proto: "binary", L1H: "chunked", App: true},
		{Orca: "l1only", Lock: "none", Proto: "binary", L1H: "batched", App: true},
		{Orca: "l1only", Lock: "none", Proto: "text", L1H: "inmem", App: true},
		{Orca: "l1l2", Lock: "single", Proto: "text", L1H: "std"},
		{Orca: "l1only", Lock: "none", Proto: "binary", L1H: "chunked"},
	}
	type step struct {
		who  int // 0 = A, 1 = B
		kind string
		op   wire.Op
	}
	aSteps := []step{{0, "connect", wire.Op{}}, {0, "op", wire.Op{Kind: "set", Key: "ka", Val: "va", Flags: 1, Opaque: 0x11}}, {0, "op", wire.Op{Kind: "get", Key: "ka", Opaque: 0x12}},
		{0, "op", wire.Op{Kind: "append", Key: "ka", Val: "+", Opaque: 0x13}}, {0, "op", wire.Op{Kind: "get", Key: "ka", Opaque: 0x14}}}
	bSteps := []step{{1, "connect", wire.Op{}}, {1, "op", wire.Op{Kind: "set", Key: "kb", Val: "vb", Flags: 2, Opaque: 0x21}}, {1, "op", wire.Op{Kind: "get", Key: "kb", Opaque: 0x22}}, {1, "leave", wire.Op{}}}
	var orders [][]step
	var gen func(i, j int, acc []step)
	gen = func(i, j int, acc []step) {
		if i == len(aSteps) && j == len(bSteps) {
			orders = append(orders, append([]step{}, acc...))
			return
		}
		if i < len(aSteps) {
			gen(i+1, j, append(acc, aSteps[i]))
		}
		if j < len(bSteps) {
			gen(i, j+1, append(acc, bSteps[j]))
		}
	}
	gen(0, 0, nil)
	want := [2][]string{{"ok", "values va/1", "ok", "values va+/1"}, {"ok", "values vb/2"}}
	canon := func(r wire.Reply) string {
		if r.Class != "values" {
			return r.Class
		}
		out := "values"
		for _, h := range r.Hits {
			out += fmt.Sprintf(" %s/%d", h.Val, h.Flags)
		}
		return out
	}
	for _, cfg := range cfgs {
		for oi, order := range orders {
			*item++
			if !c.Mine(*item) || c.Expired() {
				continue
			}
			var problem string
			sched.Bubble(c.T, func() {
				w := NewWorld(cfg)
				defer w.Release()
				var ses [2]*Session
				for _, st := range order {
					switch st.kind {
					case "connect":
						ses[st.who] = w.Connect(0)
						synctest.Wait()
					case "op":
						ses[st.who].Do(st.op)
						for i := 0; i < 20; i++ { // (the batching pool sends after its virtual batch delay)
							time.Sleep(time.Millisecond)
							synctest.Wait()
						}
					case "leave":
						ses[st.who].Hangup()
						synctest.Wait()
					}
				}
				ses[0].Hangup()
				for who, s := range ses {
					reps, stray, malformed := s.Replies()
					var got []string
					for _, r := range reps {
						got = append(got, canon(r))
					}
					if stray != 0 || malformed != "" || strings.Join(got, " | ") != strings.Join(want[who], " | ") {
						problem = fmt.Sprintf("client %c was answered [%s] (stray bytes %d %s); alone it is answered [%s]", 'A'+who, strings.Join(got, " | "), stray, malformed, strings.Join(want[who], " | "))
						break
					}
				}
			})
			c.Eval(1)
			c.Distinct(fmt.Sprintf("arrivals|%s|%d", cfg, oi))
			c.Nontrivial(fmt.Sprintf("arrivals|%s|%d", cfg, oi))
			if problem != "" {
				var desc []string
				for _, st := range order {
					d := st.kind
					if st.kind == "op" {
						d = st.op.Kind
					}
					desc = append(desc, fmt.Sprintf("%c:%s", 'A'+st.who, d))
				}
				c.Violation(fmt.Sprintf("C14 arrival-order cfg=%s", cfgClass(cfg)), "steps "+strings.Join(desc, " ")+": "+problem, map[string]interface{}{"cfg": cfg, "order": oi})
				break
			}
		}
	}
}

// runC14Race: the same connection programs free-running (real pools, 16 OS threads) under the
// race detector. A sampler; a DATA RACE report makes the test binary exit non-zero.
func runC14Race(c *rt.Ctx) {
	var cfgs []Cfg
	for _, o := range []string{"l1only", "l1l2", "l1l2b"} {
		for _, h := range []string{"std", "chunked"} {
			for _, l := range []string{"none", "multi"} {
				if l == "multi" && h == "chunked" {
					continue
				}
				cfgs = append(cfgs, Cfg{Orca: o, Lock: l, Proto: "binary", L1H: h})
			}
		}
	}
	// the batching pool as L1: all connections share its relay, pooled connections and buffers
	cfgs = append(cfgs, Cfg{Orca: "l1only", Lock: "none", Proto: "binary", L1H: "batched"}, Cfg{Orca: "l1l2", Lock: "multi", Proto: "text", L1H: "batched"})
	n := 0
	for ci, cfg := range cfgs {
		if !c.Mine(ci) {
			continue
		}
		for round := 0; round < 30; round++ {
			w := NewWorld(cfg)
			for _, st := range []*fakemc.Store{w.L1, w.L2} {
				st.Locked = true
			}
			var wg sync.WaitGroup
			for ti := 0; ti < 12; ti++ {
				wg.Add(1)
				go func(ti int) {
					defer wg.Done()
					sess := w.ConnectLocked(ti % len(cfg.Ports()))
					k, m := fmt.Sprintf("k%d", ti), fmt.Sprintf("m%d", ti)
					ops := []wire.Op{{Kind: "add", Key: k, Val: strings.Repeat("v", 30+ti)}, {Kind: "add", Key: k, Val: "x"}, {Kind: "delete", Key: m}, {Kind: "get", Key: k},
						{Kind: "append", Key: m, Val: "z"}, {Kind: "set", Key: m, Val: "y"}, {Kind: "touch", Key: m, TTL: 0}, {Kind: "delete", Key: k}}
					for oi, op := range ops {
						op.Opaque = uint32(0x1000*(ti+1) + 16*oi)
						sess.Do(op)
					}
					sess.Hangup()
				}(ti)
			}
			wg.Wait()
			w.Release()
			n++
		}
	}
	c.Eval(int64(n))
	c.Distinct("race-pass-a")
	c.Distinct("race-pass-b")
	c.Nontrivial("race-pass-a")
	c.Nontrivial("race-pass-b")
	c.Sample("12 connections x 8 commands on private keys, free-running under -race, 30 rounds per configuration")
}
