package h

import (
	"fmt"
	"github.com/netflix/rend/verifshim/vsync"
	"sort"
	"strings"
	"time"

	"github.com/anishathalye/porcupine"
	"github.com/netflix/rend/handlers"
	"github.com/netflix/rend/handlers/memcached/chunked"
	"github.com/netflix/rend/verifshim/vtime"

	"verif/fakemc"
	"verif/rt"
	"verif/sched"
	"verif/wire"
)

// ConcThread is one client connection's program.
type ConcThread struct {
	Port int       `json:"port"`
	Ops  []wire.Op `json:"ops"`
}

// ConcScenario is a concurrent program plus (for replay) a schedule.
type ConcScenario struct {
	Harness string       `json:"harness"`
	Cfg     Cfg          `json:"cfg"`
	Init    []wire.Op    `json:"init"` // sequential prefix establishing the initial state (evict ops allowed)
	Threads []ConcThread `json:"threads"`
	Choices []int        `json:"choices"`
	// Points: "backend" = every backend request; "locks" = lock acquisitions (always on when the
	// configuration is locked).
	NoBackendPoints bool `json:"noBackendPoints,omitempty"`
	// Advances: how many times the explorer may let (virtual) time pass while commands are in
	// flight; only offered while the code under test has timers armed.
	Advances int `json:"advances,omitempty"`
}

// HistOp is one completed client operation in the recorded history.
type HistOp struct {
	Thread int
	Idx    int
	Op     wire.Op
	Reply  wire.Reply
	Call   int64
	Ret    int64
}

// ConcResult is what one execution produced.
type ConcResult struct {
	S        *sched.Sched
	Hist     []HistOp
	Findings []Finding
	Mon      *LockMonitor
	Outcome  string
	L1, L2   string
	Leaked   bool
}

type kvState struct {
	Present bool
	Val     string
	Flags   uint32
}

type kvIn struct {
	Kind  string
	Key   string
	Val   string
	Flags uint32
	// Expire: a touch / get-and-touch whose expiry is an absolute time in the past (the key is
	// gone afterwards)
	Expire bool
}

type kvOut struct {
	Class string // ok | refused | hit | miss
	Val   string
	Flags uint32
}

func kvStep(st kvState, in kvIn) (kvState, kvOut) {
	switch in.Kind {
	case "set":
		return kvState{true, in.Val, in.Flags}, kvOut{Class: "ok"}
	case "add":
		if st.Present {
			return st, kvOut{Class: "refused"}
		}
		return kvState{true, in.Val, in.Flags}, kvOut{Class: "ok"}
	case "replace":
		if !st.Present {
			return st, kvOut{Class: "refused"}
		}
		return kvState{true, in.Val, in.Flags}, kvOut{Class: "ok"}
	case "append":
		if !st.Present {
			return st, kvOut{Class: "refused"}
		}
		return kvState{true, st.Val + in.Val, st.Flags}, kvOut{Class: "ok"}
	case "prepend":
		if !st.Present {
			return st, kvOut{Class: "refused"}
		}
		return kvState{true, in.Val + st.Val, st.Flags}, kvOut{Class: "ok"}
	case "delete":
		if !st.Present {
			return st, kvOut{Class: "refused"}
		}
		return kvState{}, kvOut{Class: "ok"}
	case "touch":
		if !st.Present {
			return st, kvOut{Class: "refused"}
		}
		if in.Expire {
			return kvState{}, kvOut{Class: "ok"}
		}
		return st, kvOut{Class: "ok"}
	case "get", "gat":
		if !st.Present {
			return st, kvOut{Class: "miss"}
		}
		if in.Kind == "gat" && in.Expire {
			return kvState{}, kvOut{Class: "hit", Val: st.Val, Flags: st.Flags}
		}
		return st, kvOut{Class: "hit", Val: st.Val, Flags: st.Flags}
	}
	panic("kvStep " + in.Kind)
}

var kvModel = porcupine.Model{
	Partition: func(history []porcupine.Operation) [][]porcupine.Operation {
		m := map[string][]porcupine.Operation{}
		var keys []string
		for _, o := range history {
			k := o.Input.(kvIn).Key
			if _, ok := m[k]; !ok {
				keys = append(keys, k)
			}
			m[k] = append(m[k], o)
		}
		sort.Strings(keys)
		out := make([][]porcupine.Operation, 0, len(keys))
		for _, k := range keys {
			out = append(out, m[k])
		}
		return out
	},
	Init: func() interface{} { return kvState{} },
	Step: func(state, input, output interface{}) (bool, interface{}) {
		ns, want := kvStep(state.(kvState), input.(kvIn))
		return want == output.(kvOut), ns
	},
	Equal: func(a, b interface{}) bool { return a.(kvState) == b.(kvState) },
	DescribeOperation: func(input, output interface{}) string {
		return fmt.Sprintf("%+v -> %+v", input, output)
	},
}

// toPorcupine converts the history; a multi-key get is split per key as the property states.
// expiresNow: memcached reads a TTL above 30 days as an absolute unix time; one before the
// (virtual) present removes the key.
func expiresNow(ttl uint32) bool { return ttl > 30*24*3600 && ttl < bubbleEpoch }

func toPorcupine(hist []HistOp, init map[string]kvState) (ops []porcupine.Operation, bad string) {
	for k, st := range init {
		if st.Present {
			ops = append(ops, porcupine.Operation{ClientId: 99, Input: kvIn{Kind: "set", Key: k, Val: st.Val, Flags: st.Flags}, Call: -2, Output: kvOut{Class: "ok"}, Return: -1})
		}
	}
	for _, h := range hist {
		r := h.Reply
		switch h.Op.Kind {
		case "get", "gat", "gete", "mget":
			keys := h.Op.Keys
			if h.Op.Kind != "mget" {
				keys = []string{h.Op.Key}
			}
			if r.Class != "values" || r.Malformed != "" {
				return nil, fmt.Sprintf("T%d op %d (%s): unexpected reply %s", h.Thread, h.Idx, h.Op, r)
			}
			for i, k := range keys {
				out := kvOut{Class: "miss"}
				for _, hit := range r.Hits {
					if hit.Idx == i || (hit.Idx == -1 && hit.Key == k) {
						out = kvOut{Class: "hit", Val: hit.Val, Flags: hit.Flags}
					}
				}
				kind := "get"
				if h.Op.Kind == "gat" {
					kind = "gat"
				}
				ops = append(ops, porcupine.Operation{ClientId: h.Thread, Input: kvIn{Kind: kind, Key: k, Expire: kind == "gat" && expiresNow(h.Op.TTL)}, Call: h.Call, Output: out, Return: h.Ret})
			}
		default:
			if (r.Class != "ok" && r.Class != "refused") || r.Malformed != "" {
				return nil, fmt.Sprintf("T%d op %d (%s): unexpected reply %s", h.Thread, h.Idx, h.Op, r)
			}
			ops = append(ops, porcupine.Operation{ClientId: h.Thread, Input: kvIn{Kind: h.Op.Kind, Key: h.Op.Key, Val: h.Op.Val, Flags: h.Op.Flags, Expire: h.Op.Kind == "touch" && expiresNow(h.Op.TTL)}, Call: h.Call, Output: kvOut{Class: r.Class}, Return: h.Ret})
		}
	}
	return ops, ""
}

// RunConc executes the scenario once under the scheduler with the given choice prefix. It must
// be called from inside a bubble (see sched.Bubble).
func RunConc(sc ConcScenario, prefix []int) *ConcResult {
	r, _, _ := runConcWithFault(sc, nil, prefix)
	return r
}

// runConcWithFault is RunConc with thread 0's handlers wrapped by a fault injector. It reports
// whether the fault was reached and whether thread 0's client connection ended up closed.
func runConcWithFault(sc ConcScenario, hf *HandlerFault, prefix []int) (res *ConcResult, faultHit bool, t0closed bool) {
	res = &ConcResult{}
	vsync.TakeDoublePuts()
	defer func() {
		if f := doublePut(sc.Harness); f != nil {
			res.Findings = append(res.Findings, *f)
		}
	}()
	s := sched.New(prefix)
	res.S = s
	w := NewWorld(sc.Cfg)
	defer w.Release()
	var reg *goReg
	if sc.Advances > 0 {
		reg = newGoReg()
		curGoReg = reg
		defer func() { curGoReg = nil }()
		vtime.ResetPending()
		s.TimerPending, s.MaxAdvances, s.AdvanceStep, s.Resolve = vtime.Pending, sc.Advances, time.Second, reg.resolve
		w.Who = s.Who
	}
	// initial state, sequentially and without the scheduler
	if len(sc.Init) > 0 {
		s0 := w.Connect(0)
		for _, op := range sc.Init {
			if op.Kind == "evict" {
				w.L1.Evict(op.Key)
				continue
			}
			op.Opaque = uint32(0x10 + 16*len(s0.Ops))
			s0.Do(op)
		}
		s0.Hangup()
	}
	init := map[string]kvState{}
	for _, k := range w.L2.Keys() {
		it := w.L2.M[k]
		init[k] = kvState{true, string(it.Val), it.Flags}
	}
	if sc.Cfg.Orca == "l1only" && sc.Cfg.L1H == "chunked" {
		// (the backend holds metadata and chunk entries: ask the chunked handler what the keys hold)
		hh := chunked.NewHandler(fakemc.NewConn(w.L1, "init"))
		for _, k := range w.L1.Keys() {
			if ck, role, ok := ownerOf(k); ok && role == "meta" {
				if r := CallHandler(hh, wire.Op{Kind: "get", Key: ck}); r.Class == "values" && len(r.Hits) == 1 {
					init[ck] = kvState{true, r.Hits[0].Val, r.Hits[0].Flags}
				}
			}
		}
	} else if sc.Cfg.Orca == "l1only" {
		for _, k := range w.L1.Keys() {
			it := w.L1.M[k]
			init[k] = kvState{true, string(it.Val), it.Flags}
		}
	}
	if sc.Cfg.Lock != "none" {
		res.Mon = InstallLockMonitor(s, w.LockSlot())
		defer res.Mon.Uninstall()
		for _, extra := range w.ExtraLockSlots() {
			defer InstallLockMonitor(s, extra).Uninstall()
		}
	}
	if !sc.NoBackendPoints {
		w.ConnHook = func(tier int, c *fakemc.Conn) {
			owner := -1
			if reg != nil {
				owner = s.Who() // the thread that is connecting
			}
			adopted := false
			c.Before = func(c *fakemc.Conn, f *fakemc.Frame) {
				if !adopted {
					adopted = true // (helper goroutines of a handler fall back to "the thread released last")
					reg.adopt(owner)
				}
				s.PointFor(owner, fmt.Sprintf("L%d:%s", tier, frameTag(f)), nil)
			}
		}
	}
	var clock int64
	hist := make([][]HistOp, len(sc.Threads))
	sessions := make([]*Session, len(sc.Threads))
	for ti, th := range sc.Threads {
		ti, th := ti, th
		s.Go(ti, func() {
			reg.adopt(ti)
			if hf != nil && ti == 0 {
				counts := map[int]*int{1: new(int), 2: new(int)}
				w.WrapHandler = func(tier int, h handlers.Handler) handlers.Handler {
					var f *HandlerFault
					if tier == hf.Tier {
						f = hf
					}
					return faultyHandler{inner: h, f: f, n: counts[tier], hit: &faultHit}
				}
			}
			sess := w.Connect(th.Port)
			w.WrapHandler = nil
			sessions[ti] = sess
			for oi, op := range th.Ops {
				op.Opaque = uint32(0x1000*(ti+1) + 16*oi)
				clock++
				call := clock
				sess.Do(op)
				clock++
				hist[ti] = append(hist[ti], HistOp{Thread: ti, Idx: oi, Op: op, Call: call, Ret: clock})
				if sess.Ended {
					break
				}
			}
			if ti == 0 {
				// closed by the server, before the client hangs up: the loop ended AND the client
				// socket and the backend connections of this client were really closed
				t0closed = sess.Ended && sess.Cli.Closed() && sess.L1c.LocalClosed && (sess.L2c == nil || sess.L2c.LocalClosed)
			}
			sess.Hangup()
		})
	}
	s.Run()
	add := func(clause, what string) {
		res.Findings = append(res.Findings, Finding{Sig: fmt.Sprintf("%s %s cfg=%s prog=%s", sc.Harness, clause, cfgClass(sc.Cfg), progTag(sc)), What: what, Clause: clause})
	}
	if s.Diverged != "" {
		add("replay-divergence", s.Diverged)
		return res, faultHit, t0closed
	}
	if s.Deadlock {
		add("deadlock", s.DeadlockInfo+" | locks: "+strings.Join(monHeld(res.Mon), "; "))
		return res, faultHit, t0closed
	}
	for ti, sess := range sessions {
		if sess == nil {
			continue
		}
		reps, _, _ := sess.Replies()
		for i := range hist[ti] {
			if i < len(reps) {
				hist[ti][i].Reply = reps[i]
			}
		}
		if sess.Panics != nil {
			add("panic-escaped", fmt.Sprint(sess.Panics))
		}
		if len(hist[ti]) < len(sc.Threads[ti].Ops) || (len(hist[ti]) > 0 && sess.Ended && reps[len(hist[ti])-1].Class == "none") {
			add("connection-closed", fmt.Sprintf("T%d: the server closed the connection", ti))
		}
		res.Hist = append(res.Hist, hist[ti]...)
	}
	sort.Slice(res.Hist, func(i, j int) bool { return res.Hist[i].Call < res.Hist[j].Call })
	if res.Mon != nil {
		if res.Mon.Conform != "" {
			add("lock-model-conformance", res.Mon.Conform)
		}
		if h := res.Mon.HeldNow(); len(h) > 0 {
			add("lock-leaked", strings.Join(h, "; "))
		}
		if res.Mon.MaxHeld > 1 {
			add("multiple-locks-held", fmt.Sprintf("a connection held %d key locks at once", res.Mon.MaxHeld))
		}
	}
	hung, spun, bad, residue := w.Diag()
	if hung || spun || bad || residue != 0 {
		add("backend-stream", fmt.Sprintf("hung=%v spun=%v garbage=%v residue=%d", hung, spun, bad, residue))
	}
	res.L1, res.L2 = w.L1.Dump(), w.L2.Dump()
	if sc.Cfg.L1H == "chunked" {
		res.L1 = chunkDump(w.L1)
	}
	var o []string
	for _, h := range res.Hist {
		o = append(o, fmt.Sprintf("T%d.%d=%s", h.Thread, h.Idx, h.Reply.Canon()))
	}
	res.Outcome = strings.Join(o, " ") + " | L1:" + res.L1 + " | L2:" + res.L2
	if len(res.Findings) > 0 {
		return res, faultHit, t0closed
	}
	// linearizability against the single-map model
	if sc.Cfg.Lock != "none" {
		pops, badr := toPorcupine(res.Hist, init)
		if badr != "" {
			add("unexpected-reply", badr)
		} else if !porcupine.CheckOperations(kvModel, pops) {
			add("not-linearizable", "no sequential order consistent with real time explains the replies: "+res.Outcome)
		}
		// at quiescence L1 holds no entry that differs from L2's
		if sc.Cfg.Orca != "l1only" && sc.Cfg.L1H == "chunked" {
			hh := chunked.NewHandler(fakemc.NewConn(w.L1, "final"))
			for _, k := range w.L2.Keys() {
				r := CallHandler(hh, wire.Op{Kind: "get", Key: k})
				b := w.L2.Lookup(k)
				if len(r.Hits) == 1 && (b == nil || r.Hits[0].Val != string(b.Val) || r.Hits[0].Flags != b.Flags) {
					add("l1-differs-from-l2", fmt.Sprintf("after all commands completed the chunked L1 serves %q=%q/%x, L2 holds %v", k, r.Hits[0].Val, r.Hits[0].Flags, b))
				}
			}
		} else if sc.Cfg.Orca != "l1only" {
			for _, k := range w.L1.Keys() {
				a := w.L1.Lookup(k)
				if a == nil {
					continue // physically present but expired
				}
				b := w.L2.Lookup(k)
				if b == nil || string(a.Val) != string(b.Val) || a.Flags != b.Flags {
					add("l1-differs-from-l2", fmt.Sprintf("after all commands completed L1 holds %q=%q/%x, L2 holds %v", k, a.Val, a.Flags, b))
				} else if a.Exp != b.Exp {
					add("l1-expiry-differs-from-l2", fmt.Sprintf("after all commands completed L1 holds %q until %d, L2 until %d (0 = for ever)", k, a.Exp, b.Exp))
				}
			}
		}
	}
	return res, faultHit, t0closed
}

func monHeld(m *LockMonitor) []string {
	if m == nil {
		return nil
	}
	return m.HeldNow()
}

func frameTag(f *fakemc.Frame) string {
	names := map[byte]string{0: "get", 1: "set", 2: "add", 3: "replace", 4: "delete", 9: "getq", 0xa: "noop", 0xe: "append", 0xf: "prepend", 0x1c: "touch", 0x1d: "gat", 0x1e: "gatq", 0x40: "gete", 0x41: "geteq"}
	return names[f.Op] + " " + string(f.Key)
}

func progTag(sc ConcScenario) string {
	var parts []string
	for _, t := range sc.Threads {
		var ks []string
		for _, o := range t.Ops {
			ks = append(ks, o.Kind)
		}
		parts = append(parts, fmt.Sprintf("%d:%s", t.Port, strings.Join(ks, ",")))
	}
	return strings.Join(parts, "|")
}

// ExploreConc explores every schedule of the scenario within the preemption bound and reports
// findings. Returns executions, distinct outcomes, whether exploration completed.
func ExploreConc(c *rt.Ctx, sc ConcScenario, bound int, maxExecs int) (execs int, outcomes map[string]bool, complete bool) {
	outcomes = map[string]bool{}
	ex := &sched.Explorer{Bound: bound, MaxExecs: maxExecs, Expired: c.Expired}
	// determinism self-check: the default schedule twice must give identical observations
	var first string
	for i := 0; i < 2; i++ {
		var r *ConcResult
		sched.Bubble(c.T, func() { r = RunConc(sc, nil) })
		if i == 0 {
			first = r.Outcome + "|" + r.S.Describe()
		} else if first != r.Outcome+"|"+r.S.Describe() {
			c.Violation(sc.Harness+" harness-nondeterminism", "the same schedule produced two different observations: "+first+" VS "+r.Outcome+"|"+r.S.Describe(), sc)
			return 0, outcomes, false
		}
	}
	ex.Explore(func(prefix []int) *sched.Sched {
		var r *ConcResult
		leaked, other := sched.Bubble(c.T, func() { r = RunConc(sc, prefix) })
		if other != nil {
			panic(other)
		}
		if r == nil {
			panic("RunConc did not return")
		}
		r.Leaked = leaked
		c.Eval(1)
		c.Trace(1)
		c.Trans(int64(len(r.S.Trace)))
		outcomes[r.Outcome] = true
		for _, f := range r.Findings {
			scc := sc
			scc.Choices = r.S.Choices()
			c.Violation(f.Sig, f.What+"\nschedule: "+r.S.Describe(), scc)
		}
		return r.S
	}, func(s *sched.Sched) bool { return true })
	return ex.Execs, outcomes, !ex.Truncated
}
