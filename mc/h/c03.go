package h

import (
	"encoding/json"
	"fmt"
	"github.com/netflix/rend/verifshim/vsync"
	"hash/fnv"

	"verif/rt"
	"verif/sched"
	"verif/wire"
)

func init() {
	rt.Register("C03", rt.Harness{Run: runC03, Replay: replayConc})
}

func replayConc(c *rt.Ctx, raw json.RawMessage) string {
	var sc ConcScenario
	if err := json.Unmarshal(raw, &sc); err != nil {
		return "bad scenario: " + err.Error()
	}
	var r *ConcResult
	sched.Bubble(c.T, func() { r = RunConc(sc, sc.Choices) })
	out := fmt.Sprintf("cfg=%s init=%v\n", sc.Cfg, opsStrings(sc.Init))
	for i, t := range sc.Threads {
		out += fmt.Sprintf("  T%d@%d: %v\n", i, t.Port, opsStrings(t.Ops))
	}
	out += "schedule: " + r.S.Describe() + "\noutcome: " + r.Outcome + "\n"
	if r.Mon != nil {
		out += fmt.Sprintf("lock log: %v\n", r.Mon.Log)
	}
	if len(r.Findings) == 0 {
		return out + "OK: no finding"
	}
	s := "VIOLATION reproduced:\n"
	for _, f := range r.Findings {
		s += "  " + f.Sig + " :: " + f.What + "\n"
	}
	return s + out
}

func concOps(bin bool, key, other string, tag string) []wire.Op {
	ops := []wire.Op{
		{Kind: "set", Key: key, Val: "S" + tag, Flags: 1},
		{Kind: "add", Key: key, Val: "A" + tag, Flags: 2},
		{Kind: "replace", Key: key, Val: "R" + tag, Flags: 3},
		{Kind: "append", Key: key, Val: "+" + tag},
		{Kind: "prepend", Key: key, Val: tag + "+"},
		{Kind: "delete", Key: key},
		{Kind: "touch", Key: key, TTL: touchTTL(tag)},
		{Kind: "get", Key: key},
		{Kind: "mget", Keys: []string{key, other}, Quiet: []bool{bin, false}},
	}
	if bin {
		ops = append(ops, wire.Op{Kind: "gat", Key: key, TTL: 0})
	}
	return ops
}

// touchTTL: the two connections ask for different lifetimes; connection 1's is an absolute time
// in the past (30 days + 1 s), i.e. "expire now".
func touchTTL(tag string) uint32 {
	if tag == "1" {
		return 30*24*3600 + 1
	}
	return 100
}

type namedInit struct {
	Name string
	Ops  []wire.Op
}

// initStates lists the initial states in a fixed order (work items are numbered by iteration).
func initStates(key string) []namedInit {
	return []namedInit{
		{"absent", nil},
		{"l2only", []wire.Op{{Kind: "set", Key: key, Val: "init", Flags: 9}, {Kind: "evict", Key: key}}},
		{"both", []wire.Op{{Kind: "set", Key: key, Val: "init", Flags: 9}, {Kind: "get", Key: key}}},
	}
}

// stripeOf reproduces the lock wrapper's documented key->stripe mapping (FNV-1a, masked) so the
// harness can choose keys that are forced to collide or not.
func stripeOf(key string, conc uint8) int {
	h := fnv.New32a()
	h.Write([]byte(key))
	return int(h.Sum32()) & (1<<conc - 1)
}

func runC03(c *rt.Ctx) {
	// sync.Pool may drop what it holds at any garbage collection: here it always does (every Get
	// builds a new object), so nothing the wrapper computes may depend on which pooled object
	// happens to come back
	vsync.DropPuts = true
	item := 0
	totalOutcomes := 0
	explore := func(sc ConcScenario, bound int) {
		c.Crumb("prog="+progTag(sc), sc)
		n, outs, complete := ExploreConc(c, sc, bound, 200000)
		if !complete {
			c.Cap(fmt.Sprintf("schedule cap reached for %s (%d executions)", progTag(sc), n))
		}
		totalOutcomes += len(outs)
		key := fmt.Sprintf("%s|%v|%s", sc.Cfg, opsStrings(sc.Init), progTag(sc))
		c.Distinct(key)
		c.State(int64(len(outs)))
		if len(outs) > 1 {
			c.Nontrivial(key) // the schedule changes what the clients observe: the threads really collide
		}
		if item%131 == 0 {
			var o []string
			for k := range outs {
				o = append(o, k)
			}
			c.Sample(map[string]interface{}{"cfg": sc.Cfg.String(), "init": opsStrings(sc.Init), "threads": sc.Threads, "schedules": n, "distinct_outcomes": o})
		}
	}
	// (1) every ordered pair of command kinds on one shared key, two connections
	for _, lp := range []struct {
		lock, proto string
		app         bool
	}{{"single", "binary", false}, {"single", "text", false}, {"multi", "binary", false}, {"multi", "text", false},
		// the deployment as app/memproxy.go itself builds it (--locked, lock set shared by the ports)
		{"single", "binary", true}, {"multi", "binary", true}, {"multi", "text", true}} {
		{
			lock, proto := lp.lock, lp.proto
			// 16 stripes: the two ports must map the one key to the one stripe whatever the hash is
			cfg := Cfg{Orca: "l1l2b", Lock: lock, Proto: proto, L1H: "std", Conc: 4, App: lp.app}
			for ki, key := range []string{"a", "key0", "k-long-key-name-17"} {
				if ki > 0 && (proto == "text" || lp.app && !c.Thorough()) {
					continue
				}
				ops0 := concOps(proto == "binary", key, "b", "0")
				ops1 := concOps(proto == "binary", key, "b", "1")
				for _, ni := range initStates(key) {
					iname, init := ni.Name, ni.Ops
					if ki > 0 && iname != "both" && !c.Thorough() {
						continue
					}
					for _, p0 := range []int{0, 1} {
						for _, p1 := range []int{0, 1} {
							for _, o0 := range ops0 {
								for _, o1 := range ops1 {
									item++
									if !c.Mine(item) {
										continue
									}
									if c.Expired() {
										return
									}
									if proto == "text" && !c.Thorough() && (p0 != 0 || p1 != 1 || iname != "both") {
										// (quick tier: the text protocol on two different ports; on one port only
										// the pairs with a multi-key get, whose terminator the wrapper steers
										// with state it keeps per connection)
										if !(p0 == p1 && iname == "both" && (o0.Kind == "mget" || o1.Kind == "mget")) {
											continue
										}
									}
									sc := ConcScenario{Harness: "C03", Advances: 1, Cfg: cfg, Init: init, Threads: []ConcThread{{Port: p0, Ops: []wire.Op{o0}}, {Port: p1, Ops: []wire.Op{o1}}}}
									explore(sc, -1)
								}
							}
						}
					}
				}
			}
		}
	}
	// (1b) the chunked L1 handler under the single-reader wrapper (what memproxy --chunked --locked
	// deploys): a command is many backend requests, all inside the key's lock
	for _, cfg := range []Cfg{{Orca: "l1l2b", Lock: "single", Proto: "binary", L1H: "chunked", Conc: 4},
		// memproxy --chunked --locked with the multi-reader default: the program must fall back to
		// single-reader locking on its own
		{Orca: "l1l2b", Lock: "multi", Proto: "binary", L1H: "chunked", Conc: 4, App: true}} {
		ops0 := concOps(true, "a", "b", "0")
		ops1 := concOps(true, "a", "b", "1")
		for _, ni := range initStates("a") {
			if ni.Name != "both" && !c.Thorough() {
				continue
			}
			for _, ports := range [][2]int{{0, 1}, {0, 0}} {
				for _, o0 := range ops0 {
					for _, o1 := range ops1 {
						item++
						if !c.Mine(item) {
							continue
						}
						if c.Expired() {
							return
						}
						sc := ConcScenario{Harness: "C03", Advances: 1, Cfg: cfg, Init: ni.Ops, Threads: []ConcThread{{Port: ports[0], Ops: []wire.Op{o0}}, {Port: ports[1], Ops: []wire.Op{o1}}}}
						explore(sc, 2)
					}
				}
			}
		}
	}
	// (2) two commands per connection over two keys that share a stripe (concurrency 0) and that
	// do not (concurrency 1), and (3) two writers plus a multi-key reader
	k1, k2 := "a", "b"
	for i := 0; stripeOf(k1, 1) == stripeOf(k2, 1); i++ {
		k2 = fmt.Sprintf("b%d", i)
	}
	for _, lock := range []string{"single", "multi"} {
		for _, conc := range []uint8{0, 1} {
			cfg := Cfg{Orca: "l1l2b", Lock: lock, Proto: "binary", L1H: "std", Conc: conc}
			w0 := concOps(true, k1, k2, "0")
			w1 := concOps(true, k2, k1, "1")
			for _, a := range w0 {
				for _, b := range w1 {
					item++
					if !c.Mine(item) {
						continue
					}
					if c.Expired() {
						return
					}
					init := []wire.Op{{Kind: "set", Key: k1, Val: "i1", Flags: 9}, {Kind: "get", Key: k1}, {Kind: "set", Key: k2, Val: "i2", Flags: 8}, {Kind: "evict", Key: k2}}
					// T0: a on k1 then b on k2 ; T1: b on k2 then a on k1 (opposite key order)
					a2 := a
					a2.Val += "x"
					b2 := b
					b2.Val += "x"
					sc := ConcScenario{Harness: "C03", Advances: 1, Cfg: cfg, Init: init, Threads: []ConcThread{{Port: 0, Ops: []wire.Op{a, b}}, {Port: 1, Ops: []wire.Op{b2, a2}}}}
					bound := 2
					if c.Thorough() {
						bound = 3
					}
					explore(sc, bound)
				}
			}
			if !c.Thorough() && conc == 1 {
				continue
			}
			for _, a := range w0[:6] {
				for _, b := range w1[:6] {
					item++
					if !c.Mine(item) {
						continue
					}
					if c.Expired() {
						return
					}
					init := []wire.Op{{Kind: "set", Key: k1, Val: "i1", Flags: 9}, {Kind: "get", Key: k1}}
					rd := wire.Op{Kind: "mget", Keys: []string{k1, k2}, Quiet: []bool{true, false}}
					if item%2 == 0 {
						rd = wire.Op{Kind: "mget", Keys: []string{k2, k1}, Quiet: []bool{true, true}, NoopEnd: true}
					}
					sc := ConcScenario{Harness: "C03", Advances: 1, Cfg: cfg, Init: init, Threads: []ConcThread{{Port: 0, Ops: []wire.Op{a}}, {Port: 1, Ops: []wire.Op{b}}, {Port: 0, Ops: []wire.Op{rd}}}}
					explore(sc, 2)
				}
			}
		}
	}
	// (5) read-modify-write: each connection first reads the key and then writes it (whatever a
	// connection remembers about its previous command must not change how the next one is locked)
	for _, lp := range []struct {
		lock string
		app  bool
	}{{"single", false}, {"multi", false}, {"multi", true}} {
		lock := lp.lock
		cfg := Cfg{Orca: "l1l2b", Lock: lock, Proto: "binary", L1H: "std", Conc: 4, App: lp.app}
		reads := []wire.Op{{Kind: "get", Key: "a"}}
		if c.Thorough() {
			reads = append(reads, wire.Op{Kind: "mget", Keys: []string{"a", "b"}, Quiet: []bool{true, false}}, wire.Op{Kind: "gat", Key: "a", TTL: 0})
		}
		w0 := concOps(true, "a", "b", "0")[:7]
		w1 := concOps(true, "a", "b", "1")[:7]
		for _, rd := range reads {
			for _, o0 := range w0 {
				for _, o1 := range w1 {
					for _, ports := range [][2]int{{0, 0}, {0, 1}} {
						item++
						if !c.Mine(item) {
							continue
						}
						if c.Expired() {
							return
						}
						sc := ConcScenario{Harness: "C03", Advances: 1, Cfg: cfg, Init: initStates("a")[2].Ops, Threads: []ConcThread{
							{Port: ports[0], Ops: []wire.Op{rd, o0}}, {Port: ports[1], Ops: []wire.Op{rd, o1}}}}
						bound := 2
						if c.Thorough() {
							bound = 3
						}
						explore(sc, bound)
					}
				}
			}
		}
	}
	// (4) thorough: a connection issues a command and then reads the key while another connection
	// writes it (program order within a connection must be respected by any linearization)
	if c.Thorough() {
		for _, lock := range []string{"single", "multi"} {
			cfg := Cfg{Orca: "l1l2b", Lock: lock, Proto: "binary", L1H: "std", Conc: 4}
			for _, o0 := range concOps(true, "a", "b", "0") {
				for _, o1 := range concOps(true, "a", "b", "1") {
					for _, ports := range [][2]int{{0, 1}, {1, 0}} {
						item++
						if !c.Mine(item) {
							continue
						}
						if c.Expired() {
							return
						}
						sc := ConcScenario{Harness: "C03", Advances: 1, Cfg: cfg, Init: initStates("a")[2].Ops, Threads: []ConcThread{
							{Port: ports[0], Ops: []wire.Op{o0, {Kind: "get", Key: "a"}}}, {Port: ports[1], Ops: []wire.Op{o1, {Kind: "gat", Key: "a", TTL: 0}}}}}
						explore(sc, 3)
					}
				}
			}
		}
	}
	c.Set("n_distinct_outcomes_total", totalOutcomes)
}
