package h

import (
	"encoding/json"
	"fmt"
	"strconv"

	"verif/fakemc"
	"verif/rt"
	"verif/wire"
)

func init() {
	rt.Register("C16", rt.Harness{Run: runC16, Replay: replayC16})
}

// entrySizes: every entry a scenario offered the backend has the size its client key's length
// dictates (the per-command counts are the explorer's business; this is what a replay re-checks).
func entrySizes(log []fakemc.ReqLog) (clause, detail string) {
	for _, lg := range log {
		if lg.Op != fakemc.OpSet && lg.Op != fakemc.OpAdd && lg.Op != fakemc.OpReplace {
			continue
		}
		ck, role, ok := ownerOf(lg.Key)
		switch {
		case !ok:
			return "foreign-request", fmt.Sprintf("entry %q is not derived from a client key", lg.Key)
		case role == "meta" && lg.ValLen != metaLen:
			return "meta-size", fmt.Sprintf("metadata entry of %d bytes (expected constant %d)", lg.ValLen, metaLen)
		case role != "meta" && lg.ValLen != slabBudget-71-len(ck):
			return "chunk-size-varies", fmt.Sprintf("data entry %q offered with %d bytes, the size for key length %d is %d", lg.Key, lg.ValLen, len(ck), slabBudget-71-len(ck))
		case len(lg.Key)+lg.ValLen+itemOverhead > slabBudget:
			return "slab-budget", fmt.Sprintf("entry %q: key %d + value %d + %d overhead > %d", lg.Key, len(lg.Key), lg.ValLen, itemOverhead, slabBudget)
		}
	}
	return "", ""
}

func replayC16(c *rt.Ctx, raw json.RawMessage) string {
	var sc ChunkScenario
	if err := json.Unmarshal(raw, &sc); err != nil {
		return "bad scenario: " + err.Error()
	}
	o := ChunkOpts{KeepLog: true}
	if len(sc.Faults) > 0 || sc.Lossy {
		o.NoModel, o.NoPhys = true, true
	}
	var r *ChunkResult
	cl, d := "", ""
	InBubble(c.T, func() {
		r = RunChunk(sc, o)
		cl, d = entrySizes(r.Store.Log)
	})
	out := ""
	for i, op := range sc.Ops {
		out += fmt.Sprintf("  %d: %s\n", i, op)
	}
	out += fmt.Sprintf("faults: %v\nresults: %v\n", sc.Faults, r.Results)
	if len(r.Findings) == 0 && cl == "" {
		return out + "OK: no finding"
	}
	s := "VIOLATION reproduced:\n"
	for _, f := range r.Findings {
		s += "  " + f.Sig + " :: " + f.What + "\n"
	}
	if cl != "" {
		s += "  C16 " + cl + " :: " + d + "\n"
	}
	return s + out
}

// checkChunkDiscipline inspects the set requests the fake backend received for one client key.
func checkChunkDiscipline(key string, vlen int, log []fakemc.ReqLog) (clause, detail string, dataLen int) {
	kl := len(key)
	p := payloadFor(kl)
	wantChunks := (vlen + p - 1) / p
	nData, nMeta := 0, 0
	dataLen = -1
	for _, lg := range log {
		if lg.Op != fakemc.OpSet && lg.Op != fakemc.OpAdd && lg.Op != fakemc.OpReplace {
			continue
		}
		ck, role, ok := ownerOf(lg.Key)
		if !ok || ck != key {
			return "foreign-request", fmt.Sprintf("set of entry %q while writing key of length %d", lg.Key, kl), dataLen
		}
		if role == "meta" {
			nMeta++
			if lg.ValLen != metaLen {
				return "meta-size", fmt.Sprintf("metadata entry of %d bytes (expected constant %d)", lg.ValLen, metaLen), dataLen
			}
			continue
		}
		idx, _ := strconv.Atoi(role)
		if idx != nData {
			return "chunk-index", fmt.Sprintf("data entries not numbered consecutively: got %d at position %d", idx, nData), dataLen
		}
		nData++
		if dataLen == -1 {
			dataLen = lg.ValLen
		} else if lg.ValLen != dataLen {
			return "chunk-size-varies", fmt.Sprintf("data entry %d has %d bytes, earlier ones %d", idx, lg.ValLen, dataLen), dataLen
		}
		if len(lg.Key)+lg.ValLen+itemOverhead > slabBudget {
			return "slab-budget", fmt.Sprintf("entry %q: key %d + value %d + %d overhead = %d > %d", lg.Key, len(lg.Key), lg.ValLen, itemOverhead, len(lg.Key)+lg.ValLen+itemOverhead, slabBudget), dataLen
		}
	}
	if nMeta != 1 {
		return "meta-count", fmt.Sprintf("%d metadata writes for one set", nMeta), dataLen
	}
	if nData != wantChunks {
		return "chunk-count", fmt.Sprintf("%d data entries for %d bytes with payload %d (expected %d)", nData, vlen, p, wantChunks), dataLen
	}
	return "", "", dataLen
}

func runC16(c *rt.Ctx) {
	counts := []int{0, 1, 2, 3, 9, 10, 99, 100, 999}
	var klens []int
	for i := 1; i <= 250; i++ {
		klens = append(klens, i)
	}
	heavy := map[int]bool{1: true, 2: true, 63: true, 64: true, 125: true, 249: true, 250: true}
	var dense []int // thorough: every chunk count 1..999 at these key lengths
	if c.Thorough() {
		dense = []int{1, 125, 250}
	}
	sizeByKeyLen := map[int]int{}
	item := 0
	run := func(kl, n, vlen int, spare bool) {
		kb := wire.GenValue(kl, kl*7+1)
		for i := range kb {
			kb[i] = 'a' + kb[i]%26
		}
		key := string(kb)
		ops := []wire.Op{{Kind: "set", Key: key, VGen: true, VLen: vlen, VSeed: vlen + kl, Flags: 1, Spare: spare}}
		sc := ChunkScenario{Harness: "C16", Ops: ops}
		var r *ChunkResult
		var clause, detail string
		var dl int
		InBubble(c.T, func() {
			r = RunChunk(sc, ChunkOpts{KeepLog: true, NoPhys: vlen > 8*payloadFor(kl)})
			clause, detail, dl = checkChunkDiscipline(key, vlen, r.Store.Log)
		})
		c.Eval(1)
		c.Trace(1)
		c.Distinct(fmt.Sprintf("%d|%d", kl, vlen))
		if n >= 2 {
			c.Nontrivial(fmt.Sprintf("%d|%d", kl, vlen))
		}
		for _, f := range r.Findings {
			c.Violation(f.Sig, f.What, sc)
		}
		if clause != "" {
			c.Violation("C16 "+clause, fmt.Sprintf("key length %d, value length %d: %s", kl, vlen, detail), sc)
		}
		if dl >= 0 {
			if prev, ok := sizeByKeyLen[kl]; ok && prev != dl {
				c.Violation("C16 size-not-function-of-keylen", fmt.Sprintf("key length %d: data entries of %d and of %d bytes", kl, prev, dl), sc)
			}
			sizeByKeyLen[kl] = dl
			if dl != slabBudget-71-kl {
				c.Violation("C16 size-formula", fmt.Sprintf("key length %d: data entry value length %d, expected %d", kl, dl, slabBudget-71-kl), sc)
			}
		}
		// the same discipline after the value has been re-written by append and by prepend
		if clause == "" && len(r.Findings) == 0 && vlen <= 12*payloadFor(kl) && vlen > 0 {
			for _, kind := range []string{"append", "prepend", "append"} {
				ops = append(ops, wire.Op{Kind: kind, Key: key, VGen: true, VLen: 5, VSeed: vlen, Spare: spare})
				vlen += 5
				sc2 := ChunkScenario{Harness: "C16", Ops: ops}
				var r2 *ChunkResult
				var cl2, d2 string
				var dl2 int
				InBubble(c.T, func() {
					r2 = RunChunk(sc2, ChunkOpts{KeepLog: true})
					// only the requests of the last command: the log holds all commands
					n := 0
					for i := len(r2.Store.Log) - 1; i >= 0; i-- {
						if r2.Store.Log[i].Op == fakemc.OpGet { // the metadata read that starts an append
							n = i
							break
						}
					}
					cl2, d2, dl2 = checkChunkDiscipline(key, vlen, r2.Store.Log[n:])
				})
				c.Eval(1)
				for _, f := range r2.Findings {
					c.Violation(f.Sig, f.What, sc2)
				}
				if cl2 != "" {
					c.Violation("C16 "+cl2+" after-"+kind, fmt.Sprintf("key length %d, value length %d after %s: %s", kl, vlen, kind, d2), sc2)
					break
				}
				if dl2 >= 0 && dl2 != slabBudget-71-kl {
					c.Violation("C16 size-formula after-"+kind, fmt.Sprintf("key length %d: after %s data entries have %d bytes, expected %d", kl, kind, dl2, slabBudget-71-kl), sc2)
					break
				}
			}
		}
		if kl%50 == 0 && n == 3 {
			c.Sample(map[string]interface{}{"key_len": kl, "value_len": vlen, "chunks": n, "data_entry_value_len": dl, "backend_key_len_max": kl + 1 + len(strconv.Itoa(n))})
		}
	}
	for _, kl := range klens {
		item++
		if !c.Mine(item) {
			continue
		}
		p := payloadFor(kl)
		for _, n := range counts {
			if n >= 99 && !heavy[kl] && !(c.Thorough() && kl%10 == 0) {
				continue
			}
			if c.Expired() {
				return
			}
			lens := map[int]bool{n * p: true}
			if n > 0 {
				lens[n*p-1] = true
				lens[(n-1)*p+1] = true
			}
			for vlen := range lens {
				run(kl, n, vlen, kl%2 == 0)
			}
		}
	}
	// (c) every storing command kind x every shape of expiry (relative, the 30-day boundary,
	// absolute in the future, absolute in the past): what is written must not depend on it
	ttls := []uint32{0, 100, 30 * 24 * 3600, 30*24*3600 + 1, bubbleEpoch - 3600, bubbleEpoch + 3600, bubbleEpoch + 90*24*3600}
	for _, kl := range []int{1, 2, 64, 125, 250} {
		item++
		if !c.Mine(item) {
			continue
		}
		p := payloadFor(kl)
		kb := wire.GenValue(kl, kl*5+3)
		for i := range kb {
			kb[i] = 'a' + kb[i]%26
		}
		key := string(kb)
		for _, n := range []int{1, 2, 3} {
			for _, vlen := range []int{n * p, (n-1)*p + 1} {
				for _, kind := range []string{"set", "add", "replace"} {
					for ti, ttl := range append(append([]uint32{}, ttls...), 0, 100) {
						// (the last two: the quiet forms SETQ/ADDQ/REPLACEQ, which only binary clients send)
						quiet := ti >= len(ttls)
						var ops []wire.Op
						if kind == "replace" {
							ops = append(ops, wire.Op{Kind: "set", Key: key, Val: "x", Flags: 9})
						}
						ops = append(ops, wire.Op{Kind: kind, Key: key, VGen: true, VLen: vlen, VSeed: vlen + int(ttl%97), Flags: 1, TTL: ttl, QuietW: quiet})
						sc := ChunkScenario{Harness: "C16", Ops: ops}
						var r *ChunkResult
						var clause, detail string
						var dl int
						from := 0
						InBubble(c.T, func() {
							r = RunChunk(sc, ChunkOpts{KeepLog: true, AfterEach: func(i int, op wire.Op, st *fakemcStore, m *refModel, res HRes) (string, string) {
								if i == len(ops)-2 {
									from = len(st.Log)
								}
								return "", ""
							}})
							clause, detail, dl = checkChunkDiscipline(key, vlen, r.Store.Log[from:])
						})
						c.Eval(1)
						c.Trace(1)
						c.Distinct(fmt.Sprintf("ttl|%d|%d|%s|%d|%v", kl, vlen, kind, ttl, quiet))
						c.Nontrivial(fmt.Sprintf("ttl|%d|%d|%s|%d|%v", kl, vlen, kind, ttl, quiet))
						for _, f := range r.Findings {
							c.Violation(f.Sig, f.What, sc)
						}
						if clause == "" && dl >= 0 && dl != slabBudget-71-kl {
							clause, detail = "size-formula", fmt.Sprintf("data entry value length %d, expected %d", dl, slabBudget-71-kl)
						}
						if clause != "" {
							c.Violation("C16 "+clause+" expiry-shape", fmt.Sprintf("key length %d, value length %d, %s with expiry %d: %s", kl, vlen, kind, ttl, detail), sc)
						}
					}
				}
			}
		}
	}
	// (d) one backend connection used for keys of different lengths, one after the other (short,
	// long, short again and the reverse): the entry size is a function of the key length of the
	// command at hand, never of what the connection stored before
	mixLens := []int{1, 2, 64, 125, 249, 250}
	if c.Thorough() {
		mixLens = []int{1, 2, 3, 31, 63, 64, 65, 124, 125, 126, 200, 248, 249, 250}
	}
	for _, kl1 := range mixLens {
		for _, kl2 := range mixLens {
			if kl1 == kl2 {
				continue
			}
			item++
			if !c.Mine(item) {
				continue
			}
			if c.Expired() {
				return
			}
			mk := func(kl, salt int) string {
				kb := wire.GenValue(kl, kl*3+salt)
				for i := range kb {
					kb[i] = 'a' + kb[i]%26
				}
				return string(kb)
			}
			k1, k2 := mk(kl1, 11), mk(kl2, 12)
			p1, p2 := payloadFor(kl1), payloadFor(kl2)
			for _, n1 := range []int{1, 2, 3} {
				for _, n2 := range []int{1, 2, 3} {
					for shape := 0; shape < 2; shape++ {
						v1, v2 := n1*p1, n2*p2
						if shape == 1 {
							v1, v2 = (n1-1)*p1+1, (n2-1)*p2+1
						}
						keys := []string{k1, k2, k1, k2}
						vlens := []int{v1, v2, v1 + 1, v2 - 1}
						kinds := []string{"set", "set", "set", "replace"}
						var ops []wire.Op
						for i := range keys {
							ops = append(ops, wire.Op{Kind: kinds[i], Key: keys[i], VGen: true, VLen: vlens[i], VSeed: vlens[i] + i, Flags: 1, Spare: (kl1+i)%2 == 0})
						}
						sc := ChunkScenario{Harness: "C16", Ops: ops}
						var r *ChunkResult
						var clause, detail string
						bad := -1
						InBubble(c.T, func() {
							starts := make([]int, len(ops)+1)
							r = RunChunk(sc, ChunkOpts{KeepLog: true, AfterEach: func(i int, op wire.Op, st *fakemcStore, m *refModel, res HRes) (string, string) {
								starts[i+1] = len(st.Log)
								return "", ""
							}})
							for i := range ops {
								if starts[i+1] < starts[i] || starts[i+1] > len(r.Store.Log) {
									continue // the run stopped early: r.Findings says why
								}
								cl, d, dl := checkChunkDiscipline(keys[i], vlens[i], r.Store.Log[starts[i]:starts[i+1]])
								if cl == "" && dl >= 0 && dl != slabBudget-71-len(keys[i]) {
									cl, d = "size-formula", fmt.Sprintf("data entry value length %d, expected %d", dl, slabBudget-71-len(keys[i]))
								}
								if cl != "" {
									clause, detail, bad = cl, d, i
									return
								}
							}
						})
						c.Eval(1)
						c.Trace(1)
						c.Distinct(fmt.Sprintf("mix|%d|%d|%d|%d|%d", kl1, kl2, n1, n2, shape))
						c.Nontrivial(fmt.Sprintf("mix|%d|%d|%d|%d|%d", kl1, kl2, n1, n2, shape))
						for _, f := range r.Findings {
							c.Violation(f.Sig, f.What, sc)
						}
						if clause != "" {
							c.Violation("C16 "+clause+" mixed-key-lengths", fmt.Sprintf("one connection, key lengths %d then %d, command %d (%s, key length %d, value length %d): %s", kl1, kl2, bad, kinds[bad], len(keys[bad]), vlens[bad], detail), sc)
						}
					}
				}
			}
		}
	}
	// (e) the backend refuses one request of a set with a transient status (out of memory, busy,
	// temporary failure, item too large): whatever the handler does next (give up, try again), every
	// entry it offers the backend still has the one size of its key length
	for _, kl := range []int{1, 64, 250} {
		item++
		if !c.Mine(item) {
			continue
		}
		p := payloadFor(kl)
		kb := wire.GenValue(kl, kl*9+5)
		for i := range kb {
			kb[i] = 'a' + kb[i]%26
		}
		key := string(kb)
		for _, n := range []int{1, 2, 3} {
			for _, vlen := range []int{n * p, (n-1)*p + 1} {
				for j := 0; j <= n; j++ {
					for _, stt := range []uint16{0x82, 0x85, 0x86, 0x03} {
						for _, kind := range []string{"set", "add"} {
							ops := []wire.Op{{Kind: kind, Key: key, VGen: true, VLen: vlen, VSeed: vlen + j, Flags: 1}, {Kind: "set", Key: key, VGen: true, VLen: vlen, VSeed: vlen + j + 1, Flags: 2}}
							sc := ChunkScenario{Harness: "C16", Ops: ops, Lossy: true, Faults: map[int]fakemc.Fault{j: {Kind: fakemc.FStatus, Status: stt}}}
							var r *ChunkResult
							clause, detail := "", ""
							InBubble(c.T, func() {
								r = RunChunk(sc, ChunkOpts{KeepLog: true, NoModel: true, NoPhys: true})
								for _, lg := range r.Store.Log {
									if lg.Op != fakemc.OpSet && lg.Op != fakemc.OpAdd && lg.Op != fakemc.OpReplace {
										continue
									}
									ck, role, ok := ownerOf(lg.Key)
									switch {
									case !ok || ck != key:
										clause, detail = "foreign-request", fmt.Sprintf("entry %q offered while writing a key of length %d", lg.Key, kl)
									case role == "meta" && lg.ValLen != metaLen:
										clause, detail = "meta-size", fmt.Sprintf("metadata entry of %d bytes (expected constant %d)", lg.ValLen, metaLen)
									case role != "meta" && lg.ValLen != slabBudget-71-kl:
										clause, detail = "chunk-size-varies", fmt.Sprintf("data entry %q offered with %d bytes, the size for key length %d is %d", lg.Key, lg.ValLen, kl, slabBudget-71-kl)
									case len(lg.Key)+lg.ValLen+itemOverhead > slabBudget:
										clause, detail = "slab-budget", fmt.Sprintf("entry %q: key %d + value %d + %d overhead > %d", lg.Key, len(lg.Key), lg.ValLen, itemOverhead, slabBudget)
									}
									if clause != "" {
										return
									}
								}
							})
							c.Eval(1)
							c.Trace(1)
							c.Distinct(fmt.Sprintf("refused|%d|%d|%d|%#x|%s", kl, vlen, j, stt, kind))
							c.Nontrivial(fmt.Sprintf("refused|%d|%d|%d|%#x|%s", kl, vlen, j, stt, kind))
							for _, f := range r.Findings {
								c.Violation(f.Sig, f.What, sc)
							}
							if clause != "" {
								c.Violation("C16 "+clause+" after-refused-request", fmt.Sprintf("key length %d, value length %d, backend request %d of the %s answered with status %#x: %s", kl, vlen, j, kind, stt, detail), sc)
							}
						}
					}
				}
			}
		}
	}
	for _, kl := range dense {
		p := payloadFor(kl)
		for n := 1; n <= 999; n++ {
			item++
			if !c.Mine(item) {
				continue
			}
			if c.Expired() {
				return
			}
			run(kl, n, n*p, false)
			run(kl, n, (n-1)*p+1, true)
		}
	}
	c.Set("key_lengths", len(klens))
	c.Set("chunk_counts", fmt.Sprint(counts))
}
