package h

import (
	"bufio"
	"fmt"
	"io"
	"net"
	"runtime"
	"sync"
	"sync/atomic"
	"syscall"
	"time"

	"github.com/netflix/rend/common"
	"github.com/netflix/rend/handlers"
	"github.com/netflix/rend/handlers/memcached/batched"
	"github.com/netflix/rend/handlers/memcached/chunked"
	"github.com/netflix/rend/handlers/memcached/std"
	"github.com/netflix/rend/orcas"
	"github.com/netflix/rend/protocol"
	"github.com/netflix/rend/protocol/binprot"
	"github.com/netflix/rend/protocol/textprot"
	"github.com/netflix/rend/server"
	"github.com/netflix/rend/verifshim/vnet"

	"verif/fakemc"
	"verif/wire"
)

// Cfg is one deployment shape.
type Cfg struct {
	Orca  string `json:"orca"`  // l1only | l1l2 | l1l2b (l1l2 on the main port + l1l2batch on the batch port)
	Lock  string `json:"lock"`  // none | single | multi
	Proto string `json:"proto"` // text | binary
	L1H   string `json:"l1h"`   // std | chunked
	Conc  uint8  `json:"conc"`  // lock concurrency (2^conc stripes)
	// App: the deployment is built by rend's own main program (app/memproxy.go: flags, lock set
	// sharing between the ports, listeners of server/listen.go, handler constructors of
	// handlers/memcached/constructors.go, server.ListenAndServe) instead of being wired by the
	// harness; "l1l2" and "l1l2b" are then the same deployment (--l2-enabled starts both ports).
	App bool `json:"app,omitempty"`
	// Unix (App only): the main port listens on a unix domain socket (--use-domain-socket).
	Unix bool `json:"unix,omitempty"`
	// Also (App only): L1 handler flags given in addition to the one L1H stands for ("chunked",
	// "l1-batched", comma separated). memproxy accepts such combinations silently and picks one
	// handler by a fixed precedence (in-memory, chunked, batched, direct); L1H names the winner.
	Also string `json:"also,omitempty"`
}

func (c Cfg) String() string {
	if c.App && c.Unix {
		return fmt.Sprintf("%s/%s/%s/l1=%s/main-unix", c.Orca, c.Lock, c.Proto, c.L1H)
	}
	if c.App && c.Also != "" {
		return fmt.Sprintf("%s/%s/%s/l1=%s/main+%s", c.Orca, c.Lock, c.Proto, c.L1H, c.Also)
	}
	if c.App {
		return fmt.Sprintf("%s/%s/%s/l1=%s/main", c.Orca, c.Lock, c.Proto, c.L1H)
	}
	return fmt.Sprintf("%s/%s/%s/l1=%s", c.Orca, c.Lock, c.Proto, c.L1H)
}

// Ports returns the client-facing ports of the configuration.
func (c Cfg) Ports() []int {
	if c.Orca == "l1l2b" {
		return []int{0, 1}
	}
	return []int{0}
}

// AllCfgs is the configuration product of C01/C08.
func AllCfgs(l1hs []string) []Cfg {
	var out []Cfg
	for _, o := range []string{"l1only", "l1l2", "l1l2b"} {
		for _, l := range []string{"none", "single", "multi"} {
			for _, p := range []string{"binary", "text"} {
				for _, h := range l1hs {
					out = append(out, Cfg{Orca: o, Lock: l, Proto: p, L1H: h})
				}
			}
		}
	}
	return out
}

// Client is the client side of a connection to the server loop. The driver feeds request bytes
// one request at a time and waits until the server asks for more input (i.e. has finished the
// request) or has ended the loop.
type Client struct {
	mu     sync.Mutex
	feed   chan []byte
	idle   chan struct{}
	buf    []byte
	Out    []byte
	closed bool // closed by server (abort)
	eof    bool // client will send no more
	done   chan struct{}
	Reads  int
	// EOFReads counts reads after the client has closed; a server that keeps reading is spinning.
	EOFReads int
	Spun     bool
	waiting  bool
	gone     bool
	// closeEnds: the server loop runs on a goroutine the harness does not own (deployments built by
	// the real main program); the connection being closed is then what ends the session.
	closeEnds  bool
	doneClosed bool
	tid        int // logical thread the connection belongs to (-1: unknown); see goReg
	adopted    bool
	// StallAfter > 0: a client that stops reading: once that many reply bytes have been taken, the
	// server's next write blocks (as on a full socket) until Unstall is called.
	StallAfter int
	stallCh    chan struct{}
	Stalled    bool
}

// Waiting reports whether the server is blocked reading this connection (call at quiescence).
func (c *Client) Waiting() bool { c.mu.Lock(); defer c.mu.Unlock(); return c.waiting }

// Feed hands bytes to the server if (and only if) it is waiting for input; reports whether it was.
func (c *Client) Feed(b []byte) bool {
	if !c.Waiting() {
		return false
	}
	c.feed <- b
	return true
}

// End closes the client side if the server is still reading it.
func (c *Client) End() {
	c.mu.Lock()
	if c.eof {
		c.mu.Unlock()
		return
	}
	c.mu.Unlock()
	if c.Waiting() {
		close(c.feed)
		return
	}
	c.mu.Lock()
	c.eof = true
	c.mu.Unlock()
}

func NewClient() *Client {
	return &Client{tid: -1, feed: make(chan []byte), idle: make(chan struct{}, 1), done: make(chan struct{})}
}

func (c *Client) Read(p []byte) (int, error) {
	if r := curGoReg; r != nil && !c.adopted {
		c.adopted = true // the goroutine serving a connection does not change
		r.adopt(c.tid)
	}
	c.Reads++
	for len(c.buf) == 0 {
		c.mu.Lock()
		cl, eof := c.closed, c.eof
		c.mu.Unlock()
		if cl {
			return 0, io.ErrClosedPipe
		}
		if eof {
			c.EOFReads++
			if c.EOFReads > 64 {
				c.Spun = true
				runtime.Goexit()
			}
			return 0, io.EOF
		}
		select {
		case c.idle <- struct{}{}:
		default:
		}
		c.mu.Lock()
		c.waiting = true
		c.mu.Unlock()
		b, ok := <-c.feed
		c.mu.Lock()
		c.waiting = false
		c.mu.Unlock()
		if !ok {
			c.mu.Lock()
			c.eof = true
			c.mu.Unlock()
			return 0, io.EOF
		}
		c.buf = b
	}
	n := copy(p, c.buf)
	c.buf = c.buf[n:]
	return n, nil
}

// GoAway models a client that has disconnected: bytes already fed can still be read, then EOF;
// every write fails with a broken pipe.
func (c *Client) GoAway() {
	c.mu.Lock()
	c.gone = true
	c.mu.Unlock()
}

func (c *Client) Write(p []byte) (int, error) {
	c.mu.Lock()
	if c.closed {
		c.mu.Unlock()
		return 0, io.ErrClosedPipe
	}
	if c.gone {
		c.mu.Unlock()
		return 0, syscall.EPIPE
	}
	if c.StallAfter > 0 && len(c.Out)+len(p) > c.StallAfter && c.stallCh != nil {
		// take what still fits, then wait like a writer on a full socket
		room := c.StallAfter - len(c.Out)
		if room < 0 {
			room = 0
		}
		c.Out = append(c.Out, p[:room]...)
		c.Stalled = true
		ch := c.stallCh
		c.mu.Unlock()
		<-ch
		c.mu.Lock()
		c.Stalled = false
		if c.closed {
			c.mu.Unlock()
			return room, io.ErrClosedPipe
		}
		c.Out = append(c.Out, p[room:]...)
		c.mu.Unlock()
		return len(p), nil
	}
	c.Out = append(c.Out, p...)
	c.mu.Unlock()
	return len(p), nil
}

// StopReading makes the client stop taking reply bytes after n more; Unstall lets it read on.
func (c *Client) StopReading(n int) {
	c.mu.Lock()
	c.StallAfter = len(c.Out) + n
	c.stallCh = make(chan struct{})
	c.mu.Unlock()
}

func (c *Client) Unstall() {
	c.mu.Lock()
	if c.stallCh != nil {
		close(c.stallCh)
		c.stallCh = nil
		c.StallAfter = 0
	}
	c.mu.Unlock()
}

// IsStalled reports whether the server is blocked writing to this client.
func (c *Client) IsStalled() bool { c.mu.Lock(); defer c.mu.Unlock(); return c.Stalled }

func (c *Client) Close() error {
	c.mu.Lock()
	c.closed = true
	if c.closeEnds && !c.doneClosed {
		c.doneClosed = true
		close(c.done)
	}
	gone := c.gone
	c.mu.Unlock()
	if gone {
		// the peer went away abortively: the socket is released, and the pending error is reported
		return syscall.ECONNRESET
	}
	return nil
}

// CloseWrite: shutting down the sending side of a connection whose peer has gone away abortively
// fails (ENOTCONN); otherwise nothing to do for an in-memory connection.
func (c *Client) CloseWrite() error {
	c.mu.Lock()
	defer c.mu.Unlock()
	if c.gone {
		return syscall.ENOTCONN
	}
	return nil
}

// Closed reports whether the server closed the connection.
func (c *Client) Closed() bool { c.mu.Lock(); defer c.mu.Unlock(); return c.closed }

func (c *Client) LocalAddr() net.Addr                { return nil }
func (c *Client) RemoteAddr() net.Addr               { return nil }
func (c *Client) SetDeadline(t time.Time) error      { return nil }
func (c *Client) SetReadDeadline(t time.Time) error  { return nil }
func (c *Client) SetWriteDeadline(t time.Time) error { return nil }

// World is one server deployment over two fake backends.
type World struct {
	Cfg   Cfg
	L1    *fakemc.Store
	L2    *fakemc.Store
	Conns []*fakemc.Conn
	// WrapHandler, if set, wraps every handler the world creates (fault / panic injection).
	WrapHandler func(tier int, h handlers.Handler) handlers.Handler
	// ConnHook, if set, is applied to every backend connection the world opens.
	ConnHook  func(tier int, c *fakemc.Conn)
	nconn     int
	batchSock string
	app       *appInst
	// SeqGuard: the harness issues one command at a time; a command that waits for a key lock is
	// then stuck for good (see seqGuard). LockTrouble is what the guard saw.
	SeqGuard bool
	guard    *SeqLockGuard
	// Who, if set, names the logical thread that is opening a connection (see goReg).
	Who func() int
}

// LockTrouble reports what the sequential lock guard observed (empty: nothing).
func (w *World) LockTrouble() string {
	if w.guard == nil {
		return ""
	}
	return w.guard.Trouble
}

var worldSockSeq int64

// poolKeeper: rend gives the batching pool no way to stop, so every deployment with a pooled L1
// leaves the pool's goroutines parked for good. A breadth-first search runs hundreds of thousands
// of deployments; for those the whole search runs inside ONE bubble and all its deployments share
// one pool (as the connections of one long-running memproxy do), pointed at the fresh backend of
// each execution. Between executions the pool is idle: every command has been answered.
type poolKeeper struct {
	sock  string
	world *World
	conns []*fakemc.Conn
}

var curKeeper *poolKeeper

// KeepPool switches the sharing on until the returned function is called. Must be called inside
// the bubble that will run the executions.
func KeepPool() (release func()) {
	k := &poolKeeper{}
	curKeeper = k
	return func() {
		if k.sock != "" {
			batched.VerifForget(k.sock)
			vnet.DialHook = nil
		}
		curKeeper = nil
	}
}

// Release forgets the world's batching relay (its goroutines stay parked) and the dial hook.
func (w *World) Release() {
	if w.guard != nil {
		w.guard.Uninstall()
		w.guard = nil
	}
	if w.app != nil {
		w.stopApp()
		return
	}
	if w.batchSock != "" {
		batched.VerifForget(w.batchSock)
		vnet.DialHook = nil
		w.batchSock = ""
	}
}

type lockKey struct {
	orca  string
	multi bool
	conc  uint8
}

var (
	lockMu    sync.Mutex
	lockSlots = map[lockKey]uint32{}
	lockMain  = map[lockKey]orcas.OrcaConst{}
)

// lockedMain returns (and caches per process: rend allows only ~1000 lock sets) the locking
// wrapper of the main port, built with orcas.Locked exactly as app/memproxy.go does, and its lock
// set id, which the batch port attaches to with orcas.LockedWithExisting.
func lockedMain(orca string, multi bool, conc uint8) (orcas.OrcaConst, uint32) {
	lockMu.Lock()
	defer lockMu.Unlock()
	k := lockKey{orca, multi, conc}
	if s, ok := lockSlots[k]; ok {
		return lockMain[k], s
	}
	base := orcas.L1L2
	if orca == "l1only" {
		base = orcas.L1Only
	}
	oc, slot := orcas.Locked(base, multi, conc)
	lockSlots[k], lockMain[k] = slot, oc
	return oc, slot
}

// lockedConsts returns the lock set id used by a locked configuration.
func lockedSlot(cfg Cfg) uint32 {
	_, slot := lockedMain(cfg.Orca, cfg.Lock == "multi", cfg.Conc)
	return slot
}

// NewWorld builds an empty deployment.
func NewWorld(cfg Cfg) *World {
	return &World{Cfg: cfg, L1: fakemc.NewStore("L1"), L2: fakemc.NewStore("L2")}
}

// OrcaConst returns the orchestrator constructor serving the given port.
func (w *World) OrcaConst(port int) orcas.OrcaConst {
	var base orcas.OrcaConst
	switch {
	case w.Cfg.Orca == "l1only":
		base = orcas.L1Only
	case port == 1:
		base = orcas.L1L2Batch
	default:
		base = orcas.L1L2
	}
	if w.Cfg.Lock == "none" {
		return base
	}
	main, slot := lockedMain(w.Cfg.Orca, w.Cfg.Lock == "multi", w.Cfg.Conc)
	if port == 1 {
		// the batch port attaches to the main port's lock set, as app/memproxy.go does
		return orcas.LockedWithExisting(base, slot)
	}
	return main
}

func (w *World) newHandler(tier int, kind string, store *fakemc.Store) (handlers.Handler, *fakemc.Conn) {
	w.nconn++
	c := fakemc.NewConn(store, fmt.Sprintf("%s#%d", store.Name, w.nconn))
	if w.ConnHook != nil {
		w.ConnHook(tier, c)
	}
	w.Conns = append(w.Conns, c)
	var h handlers.Handler
	switch kind {
	case "chunked":
		h = chunked.NewHandler(c)
	case "batched":
		// the batching pool dials its own connections (net.Dial is rewritten by the overlay): one
		// relay per world, every client connection gets its own Handler on it, as memproxy does
		w.Conns = w.Conns[:len(w.Conns)-1]
		store.Opened--
		if k := curKeeper; k != nil {
			// one pool for all executions of this bubble (see poolKeeper)
			if k.world != w {
				k.world = w
				for _, pc := range k.conns {
					pc.Retarget(store)
					w.Conns = append(w.Conns, pc)
				}
			}
			if k.sock == "" {
				k.sock = fmt.Sprintf("verif-kept-sock-%d", atomic.AddInt64(&worldSockSeq, 1))
				vnet.DialHook = func(network, address string) (net.Conn, error) {
					cw := k.world
					pc := fakemc.NewConn(cw.L1, "pool:"+address)
					pc.Async = true
					appMu.Lock()
					k.conns = append(k.conns, pc)
					cw.Conns = append(cw.Conns, pc)
					appMu.Unlock()
					return pc, nil
				}
			}
			h = batched.NewHandler(k.sock, batched.Opts{BatchSize: 2, BatchDelayMicros: 100, ReadBufSize: 512, WriteBufSize: 512, EvaluationIntervalSec: 4000000000, LoadFactorExpandRatio: 1000, OverloadedConnRatio: 1000})
			break
		}
		if w.batchSock == "" {
			w.batchSock = fmt.Sprintf("verif-world-sock-%d", atomic.AddInt64(&worldSockSeq, 1))
			vnet.DialHook = func(network, address string) (net.Conn, error) {
				pc := fakemc.NewConn(store, "pool:"+address)
				pc.Async = true
				appMu.Lock() // not worldMu: ConnectLocked holds that one while the pool dials
				w.Conns = append(w.Conns, pc)
				appMu.Unlock()
				return pc, nil
			}
		}
		h = batched.NewHandler(w.batchSock, batched.Opts{BatchSize: 2, BatchDelayMicros: 100, ReadBufSize: 512, WriteBufSize: 512, EvaluationIntervalSec: 4000000000, LoadFactorExpandRatio: 1000, OverloadedConnRatio: 1000})
	default:
		h = std.NewHandler(c)
	}
	if w.WrapHandler != nil {
		h = w.WrapHandler(tier, h)
	}
	return h, c
}

// Session is one client connection being served by server.Default(...).Loop().
type Session struct {
	W      *World
	Port   int
	Cli    *Client
	L1c    *fakemc.Conn
	L2c    *fakemc.Conn
	Ops    []wire.Op
	marks  *spanParser
	Ended  bool // loop has returned
	Panics interface{}
	// deployments built by the real main program: reply spans are delimited by the moments the
	// harness sent a request (commands are issued one at a time); Stuck = the server neither asked
	// for more input nor closed the connection within a virtual hour
	appMarks  []int
	pipelined bool
	Stuck     bool
}

var worldMu sync.Mutex

// ConnectLocked is Connect for free-running (truly concurrent) harness bodies.
func (w *World) ConnectLocked(port int) *Session {
	worldMu.Lock()
	defer worldMu.Unlock()
	return w.Connect(port)
}

// Connect opens a client connection on a port: new handlers with their own backend connections,
// parser/responder of the configured protocol, and the server loop on its own goroutine.
func (w *World) Connect(port int) *Session {
	if w.SeqGuard && w.guard == nil && w.Cfg.Lock != "none" {
		w.guard = InstallSeqLockGuard(w.LockSlot())
	}
	if w.Cfg.App {
		return w.connectApp(port)
	}
	s := &Session{W: w, Port: port, Cli: NewClient()}
	if w.Who != nil {
		s.Cli.tid = w.Who()
	}
	l1, l1c := w.newHandler(1, w.Cfg.L1H, w.L1)
	s.L1c = l1c
	var l2 handlers.Handler
	if w.Cfg.Orca != "l1only" {
		l2, s.L2c = w.newHandler(2, "std", w.L2)
	}
	var comps protocol.Components = binprot.Components
	if w.Cfg.Proto == "text" {
		comps = textprot.Components
	}
	// The parser is wrapped (harness side only) to note how many reply bytes had been written each
	// time the server loop asks for the next request: that delimits the reply of every request
	// exactly, also when requests are pipelined.
	s.marks = &spanParser{inner: comps.NewRequestParser(bufio.NewReader(s.Cli)), cli: s.Cli}
	var rp protocol.RequestParser = s.marks
	res := comps.NewResponder(bufio.NewWriter(s.Cli))
	closers := []io.Closer{s.Cli, l1}
	if l2 != nil {
		closers = append(closers, l2)
	} else {
		closers = append(closers, nil)
	}
	srv := server.Default(closers, rp, w.OrcaConst(port)(l1, l2, res))
	go func() {
		defer close(s.Cli.done)
		defer func() {
			// server.Loop recovers panics itself; anything arriving here escaped it.
			if r := recover(); r != nil {
				s.Panics = r
			}
		}()
		srv.Loop()
	}()
	s.waitIdle()
	return s
}

func (s *Session) waitIdle() {
	if s.W.Cfg.App {
		t := time.NewTimer(time.Hour) // virtual: fires only when nothing in the bubble can move
		defer t.Stop()
		select {
		case <-s.Cli.idle:
		case <-s.Cli.done:
			s.Ended = true
		case <-t.C:
			s.Ended, s.Stuck = true, true
		}
		return
	}
	select {
	case <-s.Cli.idle:
	case <-s.Cli.done:
		s.Ended = true
	}
}

// Send feeds raw bytes and waits until the server wants more input or has ended the loop.
func (s *Session) Send(b []byte) { s.send(b, true) }

func (s *Session) send(b []byte, first bool) {
	if s.Ended {
		return
	}
	if s.W.Cfg.App && first {
		s.appMarks = append(s.appMarks, len(s.Cli.Out))
	}
	select {
	case s.Cli.feed <- b:
	case <-s.Cli.done:
		s.Ended = true
		return
	}
	s.waitIdle()
}

// Do sends one op.
func (s *Session) Do(op wire.Op) {
	s.Ops = append(s.Ops, op)
	parts := wire.Segments(wire.Encode(s.W.Cfg.Proto, op), op.Seg)
	for i, part := range parts {
		s.send(part, i == 0)
	}
}

// FeedOp hands one op's bytes to the server without waiting for it to finish (for scenarios in
// which the server is not expected to become idle on this connection).
func (s *Session) FeedOp(op wire.Op) bool {
	s.Ops = append(s.Ops, op)
	if s.W.Cfg.App {
		s.appMarks = append(s.appMarks, len(s.Cli.Out))
	}
	return s.Cli.Feed(wire.Encode(s.W.Cfg.Proto, op))
}

// DoPipelined sends several ops in one write.
func (s *Session) DoPipelined(ops []wire.Op) {
	var b []byte
	for _, op := range ops {
		s.Ops = append(s.Ops, op)
		b = append(b, wire.Encode(s.W.Cfg.Proto, op)...)
	}
	if len(ops) > 1 {
		s.pipelined = true
	}
	s.Send(b)
}

type spanParser struct {
	inner protocol.RequestParser
	cli   *Client
	marks []int
}

func (p *spanParser) Parse() (common.Request, common.RequestType, uint64, error) {
	p.cli.mu.Lock()
	p.marks = append(p.marks, len(p.cli.Out))
	p.cli.mu.Unlock()
	return p.inner.Parse()
}

// ParseCalls reports how many requests the server loop asked its parser for.
func (s *Session) ParseCalls() int {
	if s.marks == nil {
		return -1 // not observable when the real main program built the parser
	}
	return len(s.marks.marks)
}

// Hangup closes the client side and waits for the loop to end.
func (s *Session) Hangup() {
	if s.Ended {
		return
	}
	close(s.Cli.feed)
	if s.W.Cfg.App {
		t := time.NewTimer(time.Hour)
		defer t.Stop()
		select {
		case <-s.Cli.done:
		case <-t.C:
			s.Stuck = true
		}
		s.Ended = true
		return
	}
	<-s.Cli.done
	s.Ended = true
}

// Replies decodes everything the server wrote for the ops sent so far.
func (s *Session) Replies() (reps []wire.Reply, stray int, malformed string) {
	return s.replies(false)
}

// RepliesLenient is Replies with binary error replies accepted under any opaque.
func (s *Session) RepliesLenient() (reps []wire.Reply) {
	reps, _, _ = s.replies(true)
	return reps
}

func (s *Session) replies(lenient bool) (reps []wire.Reply, stray int, malformed string) {
	var mk []int
	if s.marks != nil {
		mk = s.marks.marks
	} else {
		mk = s.appMarks
	}
	if len(mk) <= len(s.Ops)+1 && !(s.marks == nil && s.pipelined) {
		// the server asked for one request per request sent (plus the final read that met EOF):
		// each reply span is decoded on its own
		for i, op := range s.Ops {
			var span []byte
			if i < len(mk) {
				end := len(s.Cli.Out)
				if i+1 < len(mk) {
					end = mk[i+1]
				}
				span = s.Cli.Out[mk[i]:end]
			}
			if lenient {
				reps = append(reps, wire.DecodeSpanLenient(s.W.Cfg.Proto, span, op))
			} else {
				reps = append(reps, wire.DecodeSpan(s.W.Cfg.Proto, span, op))
			}
		}
		return reps, 0, ""
	}
	// request framing was lost (the server parsed more requests than were sent): fall back to
	// attributing the stream as a whole
	if s.W.Cfg.Proto == "text" {
		r, tr := wire.DecodeText(s.Cli.Out, s.Ops)
		return r, tr, ""
	}
	return wire.DecodeBinary(s.Cli.Out, s.Ops)
}

// Diag summarises backend-connection health after an execution.
func (w *World) Diag() (hung, spun, badreq bool, residue int) {
	for _, c := range w.Conns {
		hung = hung || c.Hung
		spun = spun || c.Spun
		badreq = badreq || c.BadRequest
		a, b := c.Residue()
		if !c.PeerClosed && !c.LocalClosed {
			residue += a + b
		}
	}
	return
}
