package h

import (
	"fmt"

	"verif/rt"
	"verif/wire"
)

func init() {
	rt.Register("C02", rt.Harness{Run: runC02, Replay: replaySeq(SeqOpts{CheckSubset: true})})
}

func stripEvictions(ops []wire.Op) []wire.Op {
	var out []wire.Op
	for _, o := range ops {
		if o.Kind != "evict" && o.Kind != "evict-entry" {
			out = append(out, o)
		}
	}
	return out
}

func runC02(c *rt.Ctx) {
	var cfgs []Cfg
	for _, o := range []string{"l1l2", "l1l2b"} {
		for _, p := range []string{"binary", "text"} {
			cfgs = append(cfgs, Cfg{Orca: o, Lock: "none", Proto: p, L1H: "std"})
		}
	}
	cfgs = append(cfgs, Cfg{Orca: "l1l2b", Lock: "multi", Proto: "binary", L1H: "std"}, Cfg{Orca: "l1l2b", Lock: "single", Proto: "binary", L1H: "std"})
	// the chunked handler and the batching pool as L1
	cfgs = append(cfgs, Cfg{Orca: "l1l2", Lock: "none", Proto: "binary", L1H: "chunked"}, Cfg{Orca: "l1l2b", Lock: "none", Proto: "text", L1H: "chunked"},
		Cfg{Orca: "l1l2b", Lock: "none", Proto: "binary", L1H: "batched"})
	// the L1/L2 deployments as the real main program builds them (memproxy --l2-enabled ...)
	cfgs = append(cfgs, Cfg{Orca: "l1l2b", Lock: "none", Proto: "binary", L1H: "std", App: true}, Cfg{Orca: "l1l2b", Lock: "multi", Proto: "text", L1H: "std", App: true, Conc: 2},
		Cfg{Orca: "l1l2b", Lock: "single", Proto: "binary", L1H: "chunked", App: true, Conc: 2},
		// redundant handler flags (--chunked --l1-batched): one L1 handler kind for both ports
		Cfg{Orca: "l1l2b", Lock: "none", Proto: "text", L1H: "chunked", App: true, Also: "l1-batched"})
	maxLen, depth := 2, 4
	if c.Thorough() {
		maxLen, depth = 4, 0
	}
	// Work items are (configuration, first event) pairs so that 16 workers have something to do;
	// each worker runs the BFS of its configurations (BFS needs the whole seen-set in one place).
	for i, cfg := range cfgs {
		if !c.Mine(i) {
			continue
		}
		alpha := stackAlphabet(cfg, true)
		// commands whose client is gone before the reply can be written (nothing is in flight once
		// the server has dropped that connection: L1 must again hold nothing L2 does not)
		alpha = append(alpha, wire.Op{Kind: "delete", Key: "a", Gone: true}, wire.Op{Kind: "set", Key: "a", Val: "g", Flags: 11, Gone: true},
			wire.Op{Kind: "append", Key: "a", Val: "h", Gone: true}, wire.Op{Kind: "touch", Key: "a", TTL: 3600, Gone: true})
		if cfg.L1H == "chunked" {
			// memcached evicts single entries: the metadata or one chunk of a key on its own
			alpha = append(alpha, wire.Op{Kind: "evict-entry", Key: "a-meta"}, wire.Op{Kind: "evict-entry", Key: "a-0"})
		}
		ml := maxLen
		if cfg.L1H != "std" && ml > 3 {
			ml = 3 // the chunked / pooled L1 executions are several times slower; still the complete space
		}
		bo := BFSOpts{MaxDepth: depth, MaxValLen: ml, Bubble: true, Seq: SeqOpts{CheckSubset: true}}
		bo.OnExec = func(sc SeqScenario, r *SeqResult) {
			n := 0
			for _, o := range sc.Ops {
				if o.Kind == "evict" || o.Kind == "evict-entry" {
					n++
				}
			}
			if lk := sc.Ops[len(sc.Ops)-1].Kind; n == 0 || lk == "evict" || lk == "evict-entry" {
				return
			}
			// differential: the same history without the evictions must produce the same replies
			var r2 *SeqResult
			sc2 := sc
			sc2.Ops = stripEvictions(sc.Ops)
			InBubble(c.T, func() { r2 = RunSeq(sc2, SeqOpts{}) })
			c.Add("n_differential_pairs", 1)
			if fmt.Sprint(r.Replies) != fmt.Sprint(r2.Replies) {
				last := sc.Ops[len(sc.Ops)-1]
				c.Violation(fmt.Sprintf("C02 eviction-visible op=%s cfg=%s", last.Kind, cfgClass(sc.Cfg)),
					fmt.Sprintf("replies with evictions %v differ from replies without %v", r.Replies, r2.Replies), sc)
			}
		}
		st, tr, complete := BFS(c, "C02", cfg, alpha, bo)
		if !complete && depth == 0 {
			c.Cap("BFS incomplete for " + cfg.String())
		}
		c.State(int64(st))
		c.Trans(int64(tr))
	}
	c.Set("depth_bound", depth)
	c.Set("value_len_cap", maxLen)
}
