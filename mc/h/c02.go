package h

import (
	"fmt"

	"verif/rt"
	"verif/wire"
)

func init() {
	rt.Register("C02", rt.Harness{Run: runC02, Replay: replaySeq(SeqOpts{CheckSubset: true})})
}

func stripEvictions(ops []wire.Op) []wire.Op {
	var out []wire.Op
	for _, o := range ops {
		if o.Kind != "evict" && o.Kind != "evict-entry" {
			out = append(out, o)
		}
	}
	return out
}

func runC02(c *rt.Ctx) {
	var cfgs []Cfg
	for _, o := range []string{"l1l2", "l1l2b"} {
		for _, p := range []string{"binary", "text"} {
			cfgs = append(cfgs, Cfg{Orca: o, Lock: "none", Proto: p, L1H: "std"})
		}
	}
	cfgs = append(cfgs, Cfg{Orca: "l1l2b", Lock: "multi", Proto: "binary", L1H: "std"}, Cfg{Orca: "l1l2b", Lock: "single", Proto: "binary", L1H: "std"})
	// the chunked handler and the batching pool as L1
	cfgs = append(cfgs, Cfg{Orca: "l1l2", Lock: "none", Proto: "binary", L1H: "chunked"}, Cfg{Orca: "l1l2b", Lock: "none", Proto: "text", L1H: "chunked"},
		Cfg{Orca: "l1l2b", Lock: "none", Proto: "binary", L1H: "batched"})
	// the L1/L2 deployments as the real main program builds them (memproxy --l2-enabled ...)
	cfgs = append(cfgs, Cfg{Orca: "l1l2b", Lock: "none", Proto: "binary", L1H: "std", App: true}, Cfg{Orca: "l1l2b", Lock: "multi", Proto: "text", L1H: "std", App: true, Conc: 2},
		Cfg{Orca: "l1l2b", Lock: "single", Proto: "binary", L1H: "chunked", App: true, Conc: 2},
		// redundant handler flags (--chunked --l1-batched): one L1 handler kind for both ports
		Cfg{Orca: "l1l2b", Lock: "none", Proto: "text", L1H: "chunked", App: true, Also: "l1-batched"})
	maxLen, depth := 2, 4
	if c.Thorough() {
		maxLen, depth = 4, 0
	}
	// Work items are (configuration, first event) pairs so that 16 workers have something to do;
	// each worker runs the BFS of its configurations (BFS needs the whole seen-set in one place).
	for i, cfg := range cfgs {
		if !c.Mine(i) {
			continue
		}
		alpha := stackAlphabet(cfg, true)
		// commands whose client is gone before the reply can be written (nothing is in flight once
		// the server has dropped that connection: L1 must again hold nothing L2 does not)
		alpha = append(alpha, wire.Op{Kind: "delete", Key: "a", Gone: true}, wire.Op{Kind: "set", Key: "a", Val: "g", Flags: 11, Gone: true},
			wire.Op{Kind: "append", Key: "a", Val: "h", Gone: true}, wire.Op{Kind: "touch", Key: "a", TTL: 3600, Gone: true})
		if cfg.L1H == "chunked" {
			// memcached evicts single entries: the metadata or one chunk of a key on its own
			alpha = append(alpha, wire.Op{Kind: "evict-entry", Key: "a-meta"}, wire.Op{Kind: "evict-entry", Key: "a-0"})
		}
		ml := maxLen
		if cfg.L1H != "std" && ml > 3 {
			ml = 3 // the chunked / pooled L1 executions are several times slower; still the complete space
		}
		bo := BFSOpts{MaxDepth: depth, MaxValLen: ml, Bubble: true, Seq: SeqOpts{CheckSubset: true}}
		bo.OnExec = func(sc SeqScenario, r *SeqResult) {
			n := 0
			for _, o := range sc.Ops {
				if o.Kind == "evict" || o.Kind == "evict-entry" {
					n++
				}
			}
			if lk := sc.Ops[len(sc.Ops)-1].Kind; n == 0 || lk == "evict" || lk == "evict-entry" {
				return
			}
			// differential: the same history without the evictions must produce the same replies
			var r2 *SeqResult
			sc2 := sc
			sc2.Ops = stripEvictions(sc.Ops)
			InBubble(c.T, func() { r2 = RunSeq(sc2, SeqOpts{}) })
			c.Add("n_differential_pairs", 1)
			if fmt.Sprint(r.Replies) != fmt.Sprint(r2.Replies) {
				last := sc.Ops[len(sc.Ops)-1]
				c.Violation(fmt.Sprintf("C02 eviction-visible op=%s cfg=%s", last.Kind, cfgClass(sc.Cfg)),
					fmt.Sprintf("replies with evictions %v differ from replies without %v", r.Replies, r2.Replies), sc)
			}
		}
		st, tr, complete := BFS(c, "C02", cfg, alpha, bo)
		if !complete && depth == 0 {
			c.Cap("BFS incomplete for " + cfg.String())
		}
		c.State(int64(st))
		c.Trans(int64(tr))
	}
	c.Set("depth_bound", depth)
	c.Set("value_len_cap", maxLen)
	directedEvictions(c, cfgs)
}

// directedEvictions: histories one step deeper than the quick tier's search, of the one shape that
// needs the depth: a key is written, memcached evicts ONE of its L1 entries (the metadata or a
// chunk), a command changes the key's lifetime, time passes, and then every command is tried. Same
// oracles as the search: replies equal the reference map's and equal the replies of the same history
// without the eviction.
func directedEvictions(c *rt.Ctx, cfgs []Cfg) {
	item := 5000
	for _, cfg := range cfgs {
		if cfg.L1H != "chunked" {
			continue
		}
		bin := cfg.Proto == "binary"
		lifetimes := []wire.Op{{Kind: "touch", Key: "a", TTL: 3600}, {Kind: "touch", Key: "a", TTL: 0}, {Kind: "append", Key: "a", Val: "s"}}
		if bin {
			lifetimes = append(lifetimes, wire.Op{Kind: "gat", Key: "a", TTL: 3600}, wire.Op{Kind: "gat", Key: "a", TTL: 0})
		}
		finals := []wire.Op{{Kind: "add", Key: "a", Val: "p", Flags: 1}, {Kind: "get", Key: "a"}, {Kind: "replace", Key: "a", Val: "r", Flags: 2},
			{Kind: "append", Key: "a", Val: "t"}, {Kind: "delete", Key: "a"}, {Kind: "touch", Key: "a", TTL: 50}}
		for _, ttl := range []uint32{0, 100} {
			for _, ev := range []string{"a-0", "a-meta"} {
				for _, lt := range lifetimes {
					for _, adv := range []uint32{101, 7200} {
						for _, fin := range finals {
							item++
							if !c.Mine(item) || c.Expired() {
								continue
							}
							ops := []wire.Op{{Kind: "set", Key: "a", Val: "x", Flags: 0xfffffffe, TTL: ttl}, {Kind: "evict-entry", Key: ev}, lt, {Kind: "advance", Sec: adv}, fin}
							sc := SeqScenario{Harness: "C02", Cfg: cfg, Ops: ops}
							var r, r2 *SeqResult
							sc2 := sc
							sc2.Ops = stripEvictions(ops)
							InBubble(c.T, func() { r = RunSeq(sc, SeqOpts{CheckSubset: true}) })
							InBubble(c.T, func() { r2 = RunSeq(sc2, SeqOpts{}) })
							c.Eval(2)
							c.Trans(int64(len(ops)))
							c.Distinct(fmt.Sprintf("directed|%s|%d|%s|%s|%d|%s", cfg, ttl, ev, opTag(lt), adv, fin.Kind))
							for _, f := range r.Findings {
								c.Violation(f.Sig, f.What, sc)
							}
							if len(r.Findings) == 0 && fmt.Sprint(r.Replies) != fmt.Sprint(r2.Replies) {
								c.Violation(fmt.Sprintf("C02 eviction-visible op=%s cfg=%s", fin.Kind, cfgClass(cfg)),
									fmt.Sprintf("replies with the eviction %v differ from replies without %v", r.Replies, r2.Replies), sc)
							}
						}
					}
				}
			}
		}
	}
}
