package h

import (
	"fmt"

	"github.com/netflix/rend/verifshim/vatomic"
	"github.com/netflix/rend/verifshim/vrand"
	"github.com/netflix/rend/verifshim/vsync"

	"verif/sched"
)

type shimLock struct {
	writer  int
	readers map[int]int
}

// ShimHooks connects the sync/atomic shims compiled into rend's packages to the scheduler.
type ShimHooks struct {
	S            *sched.Sched
	locks        map[interface{}]*shimLock
	pools        map[*vsync.Pool][]interface{}
	LockPoints   bool
	PoolPoints   bool
	AtomicPoints bool
	// LockFilter, if set, restricts lock scheduling points (and the lock model) to the locks it
	// accepts; AtomicThreads, if set, restricts atomic scheduling points to those threads.
	LockFilter    func(m interface{}) bool
	AtomicThreads map[int]bool
	waiting       map[int]interface{} // thread -> lock it is parked at
	waitingW      map[int]bool        // ... for writing
	// OnReadSection is called when a read lock has been granted (enter=true) and right before it is
	// released (enter=false).
	OnReadSection func(tid int, m interface{}, enter bool)
	names         map[interface{}]int
}

// InstallShimHooks activates the hooks; call Uninstall when the execution is over.
func init() { vsync.Track = true; vsync.Scribble = true; vrand.Small = true }

func InstallShimHooks(s *sched.Sched) *ShimHooks {
	h := &ShimHooks{S: s, locks: map[interface{}]*shimLock{}, pools: map[*vsync.Pool][]interface{}{}, names: map[interface{}]int{}}
	vsync.H = h
	vatomic.H = func(op string, addr interface{}) {
		if h.AtomicPoints && h.S.Current() >= 0 && (h.AtomicThreads == nil || h.AtomicThreads[h.S.Current()]) {
			h.S.Point("atomic-"+op+h.name(addr), nil)
		}
	}
	return h
}

func (h *ShimHooks) Uninstall() {
	vsync.H = nil
	vatomic.H = nil
}

func (h *ShimHooks) name(x interface{}) string {
	n, ok := h.names[x]
	if !ok {
		n = len(h.names)
		h.names[x] = n
	}
	return fmt.Sprintf("#%d", n)
}

func (h *ShimHooks) lock(m interface{}) *shimLock {
	l := h.locks[m]
	if l == nil {
		l = &shimLock{writer: -1, readers: map[int]int{}}
		h.locks[m] = l
	}
	return l
}

func (h *ShimHooks) Acquire(m interface{}, write bool) {
	// (checked before the scheduler is asked anything: lock probes run while the scheduler holds its
	// own mutex, and every lock of rend goes through the shim)
	if !h.LockPoints || (h.LockFilter != nil && !h.LockFilter(m)) {
		return
	}
	tid := h.S.Current()
	if tid < 0 {
		return
	}
	l := h.lock(m)
	kind := "r"
	if write {
		kind = "w"
	}
	if h.waiting == nil {
		h.waiting = map[int]interface{}{}
	}
	if h.waitingW == nil {
		h.waitingW = map[int]bool{}
	}
	h.waiting[tid] = m
	h.waitingW[tid] = write
	h.S.Point("lock-"+kind+h.name(m), func() bool {
		if write {
			return l.writer == -1 && len(l.readers) == 0
		}
		if l.writer != -1 {
			return false
		}
		// sync.RWMutex: a Lock call that is blocked by readers keeps new readers out (also a reader
		// that already holds the lock and asks again: recursive read locking deadlocks then)
		if len(l.readers) > 0 {
			for t, wm := range h.waiting {
				if t != tid && wm == m && h.waitingW[t] {
					return false
				}
			}
		}
		return true
	})
	delete(h.waiting, tid)
	delete(h.waitingW, tid)
	if h.S.Poisoned() {
		return
	}
	tid = h.S.Current()
	if write {
		l.writer = tid
	} else {
		l.readers[tid]++
	}
}

func (h *ShimHooks) Acquired(m interface{}, write bool) {
	// (checked before the scheduler is asked anything: lock probes run while the scheduler holds its
	// own mutex, and every lock of rend goes through the shim)
	if !h.LockPoints || (h.LockFilter != nil && !h.LockFilter(m)) {
		return
	}
	tid := h.S.Current()
	if tid < 0 {
		return
	}
	if !write && h.OnReadSection != nil {
		h.OnReadSection(tid, m, true)
	}
}

func (h *ShimHooks) Release(m interface{}, write bool) {
	// (checked before the scheduler is asked anything: lock probes run while the scheduler holds its
	// own mutex, and every lock of rend goes through the shim)
	if !h.LockPoints || (h.LockFilter != nil && !h.LockFilter(m)) {
		return
	}
	tid := h.S.Current()
	if tid < 0 {
		return
	}
	l := h.lock(m)
	if write {
		l.writer = -1
		return
	}
	if h.OnReadSection != nil {
		h.OnReadSection(tid, m, false)
	}
	if l.readers[tid] > 0 {
		l.readers[tid]--
		if l.readers[tid] == 0 {
			delete(l.readers, tid)
		}
	}
}

// PoolGet / PoolPut: one deterministic LIFO free list per pool, shared by all threads (the
// worst case sync.Pool permits), with a scheduling point before each operation.
func (h *ShimHooks) PoolGet(p *vsync.Pool) (interface{}, bool) {
	if !h.PoolPoints || h.S.Current() < 0 {
		return nil, false
	}
	h.S.Point("pool-get"+h.name(p), nil)
	items := h.pools[p]
	if len(items) == 0 {
		return nil, true
	}
	x := items[len(items)-1]
	h.pools[p] = items[:len(items)-1]
	return x, true
}

func (h *ShimHooks) PoolPut(p *vsync.Pool, x interface{}) bool {
	if !h.PoolPoints || h.S.Current() < 0 {
		return false
	}
	h.S.Point("pool-put"+h.name(p), nil)
	h.pools[p] = append(h.pools[p], x)
	return true
}

// Contended reports whether thread tid, inside a critical section, could be running concurrently
// with another thread's critical section if both were free-running: another thread is inside a
// section under a different lock (or under the same lock with one of the two writing), or is
// about to take a different lock than the one tid holds. With one lock taken in the right modes
// this is never the case, and the accesses inside sections need no scheduling points.
func (h *ShimHooks) Contended(tid int) bool {
	var mine interface{}
	mineWrite := false
	for m, l := range h.locks {
		if l.writer == tid {
			mine, mineWrite = m, true
		} else if l.readers[tid] > 0 {
			mine = m
		}
	}
	for m, l := range h.locks {
		if l.writer >= 0 && l.writer != tid {
			return true
		}
		for r := range l.readers {
			if r != tid && (m != mine || mineWrite) {
				return true
			}
		}
	}
	for t, m := range h.waiting {
		if t != tid && m != mine {
			return true
		}
	}
	return false
}
