package h

import (
	"encoding/json"
	"fmt"
	"github.com/netflix/rend/verifshim/vyield"
	"strings"
	"sync"
	"time"

	"github.com/anishathalye/porcupine"
	"github.com/netflix/rend/handlers"
	"github.com/netflix/rend/handlers/inmem"

	"verif/refmodel"
	"verif/rt"
	"verif/sched"
	"verif/wire"
)

func init() {
	rt.Register("C17", rt.Harness{Run: runC17, Replay: replayC17})
	rt.Register("C17R", rt.Harness{Run: runC17Race})
}

// InmemScenario: sequential ops on the shared in-memory backend (advance = clock).
type InmemScenario struct {
	Ops     []wire.Op   `json:"ops"`
	Threads [][]wire.Op `json:"threads,omitempty"` // concurrent part (after Ops)
	Choices []int       `json:"choices,omitempty"`
}

type inmemResult struct {
	Findings []Finding
	Results  []string
	StateKey string
	MaxVal   int
}

// inmemForceFree reports whether the shared backend's lock is held although no command is
// running, and releases it in that case (so that the worker can go on after reporting the leak).
func inmemForceFree(h handlers.Handler) bool {
	mu, _ := inmem.VerifMutex(h)
	t, ok := mu.(interface {
		TryLock() bool
		Unlock()
	})
	if !ok {
		return false
	}
	if t.TryLock() {
		t.Unlock()
		return false
	}
	for i := 0; i < 64 && !t.TryLock(); i++ {
		if rw, ok := mu.(interface {
			TryRLock() bool
			RUnlock()
		}); ok && rw.TryRLock() { // held by readers
			rw.RUnlock()
			rw.RUnlock()
		} else {
			t.Unlock()
		}
	}
	t.Unlock()
	return true
}

// RunInmemSeq runs a sequential history against the singleton (reset first) and the model.
func RunInmemSeq(sc InmemScenario) *inmemResult {
	res := &inmemResult{}
	h0, _ := inmem.New()
	inmem.VerifReset(h0)
	inmemForceFree(h0)
	m := refmodel.New(uint32(time.Now().Unix()))
	for i, op := range sc.Ops {
		if op.Kind == "advance" {
			time.Sleep(time.Duration(op.Sec) * time.Second)
			continue
		}
		// every command through a handler of its own, as if sent on a connection of its own (the
		// server calls the constructor once per accepted connection)
		h, _ := inmem.New()
		m.Now = uint32(time.Now().Unix())
		e := ExpectH(m, op)
		r := CallHandler(h, op)
		if op.Kind == "gete" {
			for j := range r.Hits {
				r.Hits[j].TTL = 0 // what gete reports as expiry is not part of the property
			}
			for j := range e.Hits {
				e.Hits[j].TTL = 0
			}
		}
		res.Results = append(res.Results, r.String())
		// a command that has returned holds nothing: the next command of any connection can take
		// the backend's lock (probed on the real lock; a leak would make every later command wait)
		if inmemForceFree(h) {
			res.Findings = append(res.Findings, Finding{Sig: fmt.Sprintf("C17 lock-leaked op=%s", op.Kind), What: fmt.Sprintf("op %d (%s) returned with the shared backend's lock still held: every later command of every connection waits for ever", i, op), Clause: "lock-leaked", OpIdx: i})
			break
		}
		if c, d := DiffH(e, r); c != "" {
			res.Findings = append(res.Findings, Finding{Sig: fmt.Sprintf("C17 %s op=%s", c, op.Kind), What: fmt.Sprintf("op %d (%s): %s", i, op, d), Clause: c, OpIdx: i})
			break
		}
	}
	for _, e := range m.M {
		if len(e.Val) > res.MaxVal {
			res.MaxVal = len(e.Val)
		}
	}
	// the backend's own contents are part of the state (expiry relative to the clock): two histories
	// the model cannot tell apart may still have left the backend in different states
	res.StateKey = "M:" + m.Dump() + "|I:" + inmem.VerifSnapshotRel(h0, uint32(time.Now().Unix()))
	return res
}

func inmemAlphabet() []wire.Op {
	return []wire.Op{
		{Kind: "get", Key: "a"},
		{Kind: "set", Key: "a", Val: "x", Flags: 0xfffffffe, TTL: 0},
		{Kind: "set", Key: "a", Val: "yz", Flags: 1, TTL: 5},
		{Kind: "add", Key: "a", Val: "p", Flags: 2, TTL: 0},
		{Kind: "add", Key: "a", Val: "p5", Flags: 2, TTL: 5},
		{Kind: "replace", Key: "a", Val: "q", Flags: 3, TTL: 5},
		{Kind: "append", Key: "a", Val: "s"},
		{Kind: "prepend", Key: "a", Val: "t"},
		// empty data: nothing to copy, same outcome rules
		{Kind: "append", Key: "a", Val: ""},
		{Kind: "prepend", Key: "a", Val: ""},
		{Kind: "set", Key: "a", Val: "", Flags: 9, TTL: 0},
		{Kind: "add", Key: "b", Val: "", Flags: 4, TTL: 5},
		{Kind: "replace", Key: "a", Val: "", Flags: 6, TTL: 0},
		{Kind: "delete", Key: "a"},
		{Kind: "touch", Key: "a", TTL: 5},
		{Kind: "touch", Key: "a", TTL: 0},
		{Kind: "gat", Key: "a", TTL: 5},
		{Kind: "gat", Key: "a", TTL: 0},
		{Kind: "gete", Key: "a"},
		{Kind: "mget", Keys: []string{"a", "b"}},
		{Kind: "set", Key: "b", Val: "x", Flags: 5, TTL: 5},
		{Kind: "delete", Key: "b"},
		{Kind: "advance", Sec: 10},
	}
}

func replayC17(c *rt.Ctx, raw json.RawMessage) string {
	var sc InmemScenario
	if err := json.Unmarshal(raw, &sc); err != nil {
		return "bad scenario: " + err.Error()
	}
	var out string
	var fs []Finding
	if len(sc.Threads) == 0 {
		var r *inmemResult
		InBubble(c.T, func() { r = RunInmemSeq(sc) })
		fs = r.Findings
		out = fmt.Sprintf("ops=%v\nresults=%v\n", opsStrings(sc.Ops), r.Results)
	} else {
		var r *inmemConc
		sched.Bubble(c.T, func() { r = runInmemConc(sc, sc.Choices) })
		fs = r.Findings
		out = fmt.Sprintf("init=%v threads=%v\nschedule: %s\noutcome: %s\n", opsStrings(sc.Ops), sc.Threads, r.S.Describe(), r.Outcome)
	}
	if len(fs) == 0 {
		return out + "OK: no finding"
	}
	s := "VIOLATION reproduced:\n"
	for _, f := range fs {
		s += "  " + f.Sig + " :: " + f.What + "\n"
	}
	return s + out
}

type inmemConc struct {
	S        *sched.Sched
	Findings []Finding
	Outcome  string
}

// runInmemConc: init ops sequentially, then the threads under the scheduler at lock granularity.
func runInmemConc(sc InmemScenario, prefix []int) *inmemConc {
	res := &inmemConc{}
	h, _ := inmem.New()
	inmem.VerifReset(h)
	inmemForceFree(h) // a lock leaked by an earlier execution has been reported there
	init := map[string]kvState{}
	m := refmodel.New(uint32(time.Now().Unix()))
	for _, op := range sc.Ops {
		if op.Kind == "advance" {
			time.Sleep(time.Duration(op.Sec) * time.Second)
			continue
		}
		m.Now = uint32(time.Now().Unix())
		ExpectH(m, op)
		CallHandler(h, op)
	}
	// the reference map after the sequential prefix is the initial state of the linearizability
	// model (expired entries stay physically present in the backend, which is the point)
	m.Now = uint32(time.Now().Unix())
	for _, k := range []string{"a", "b"} {
		if e, ok := m.Live(k); ok {
			init[k] = kvState{true, e.Val, e.Flags}
		}
	}
	s := sched.New(prefix)
	res.S = s
	hk := InstallShimHooks(s)
	defer hk.Uninstall()
	hk.LockPoints = true
	snap := map[int]string{}
	var mutated string
	hk.OnReadSection = func(tid int, m interface{}, enter bool) {
		if enter {
			snap[tid] = inmem.VerifSnapshot(h)
			return
		}
		if now := inmem.VerifSnapshot(h); now != snap[tid] && mutated == "" {
			mutated = fmt.Sprintf("T%d held only the read lock from contents {%s} to contents {%s}", tid, snap[tid], now)
		}
	}
	var clock int64
	hist := make([][]HistOp, len(sc.Threads))
	pending := make([][]HRes, len(sc.Threads))
	// an access to the shared map is a scheduling point (yields injected into inmem.go) whenever
	// the locks do not already keep the accessing connection apart from the others
	vyield.Hook = func(label string) {
		if t := s.Current(); t >= 0 && hk.Contended(t) {
			s.Point("mem "+label, nil)
		}
	}
	defer func() { vyield.Hook = nil }()
	for ti, ops := range sc.Threads {
		ti, ops := ti, ops
		// each thread is a connection: it has the handler the constructor gives a new connection
		hc, _ := inmem.New()
		s.Go(ti, func() {
			for oi, op := range ops {
				clock++
				call := clock
				// the returned bytes are looked at only after every thread has finished: a reader
				// may hold a value while other connections keep working on the key
				r := CallHandlerDeferred(hc, op)
				clock++
				pending[ti] = append(pending[ti], r)
				hist[ti] = append(hist[ti], HistOp{Thread: ti, Idx: oi, Op: op, Call: call, Ret: clock})
			}
		})
	}
	s.Run()
	vyield.Hook = nil
	for ti := range pending {
		for oi := range pending[ti] {
			r := pending[ti][oi]
			r.Materialize()
			hist[ti][oi].Reply = wire.Reply{Class: r.Class, Hits: r.Hits, Misses: r.Misses}
		}
	}
	add := func(clause, what string) {
		var kinds []string
		for _, t := range sc.Threads {
			var k []string
			for _, o := range t {
				k = append(k, o.Kind)
			}
			kinds = append(kinds, strings.Join(k, ","))
		}
		res.Findings = append(res.Findings, Finding{Sig: fmt.Sprintf("C17 %s prog=%s", clause, strings.Join(kinds, "|")), What: what, Clause: clause})
	}
	if s.Deadlock {
		add("deadlock", s.DeadlockInfo)
		return res
	}
	if mutated != "" {
		add("map-mutated-under-read-lock", mutated)
	}
	var all []HistOp
	var o []string
	for _, hs := range hist {
		all = append(all, hs...)
	}
	for _, x := range all {
		o = append(o, fmt.Sprintf("T%d.%d=%s", x.Thread, x.Idx, x.Reply.Canon()))
	}
	res.Outcome = strings.Join(o, " ") + " | " + inmem.VerifSnapshot(h)
	pops, bad := toPorcupine(all, init)
	if bad != "" {
		add("unexpected-reply", bad)
	} else if !porcupine.CheckOperations(kvModel, pops) {
		add("not-linearizable", "no sequential order consistent with real time explains the results: "+res.Outcome)
	}
	return res
}

func runC17(c *rt.Ctx) {
	// ---- (a) sequential differential BFS -------------------------------------------------------
	if c.Mine(0) {
		alpha := inmemAlphabet()
		depth := 4
		if c.Thorough() {
			depth = 6
		}
		run := func(ops []wire.Op) *inmemResult {
			var r *inmemResult
			InBubble(c.T, func() { r = RunInmemSeq(InmemScenario{Ops: ops}) })
			return r
		}
		seen := map[string]bool{run(nil).StateKey: true}
		frontier := [][]wire.Op{nil}
		states := 1
		for d := 0; d < depth && len(frontier) > 0; d++ {
			var next [][]wire.Op
			for _, hist := range frontier {
				if c.Expired() {
					break
				}
				for _, ev := range alpha {
					ops := append(append([]wire.Op{}, hist...), ev)
					r := run(ops)
					c.Eval(1)
					c.Trace(1)
					c.Trans(1)
					for _, f := range r.Findings {
						c.Violation(f.Sig, f.What, InmemScenario{Ops: ops})
					}
					if len(r.Findings) > 0 || r.MaxVal > 3 {
						continue
					}
					if n := len(r.Results); n > 0 && (strings.HasPrefix(r.Results[n-1], "refused") || strings.Contains(r.Results[n-1], "{")) {
						c.Nontrivial(fmt.Sprint(opsStrings(hist)) + ev.String())
					}
					if !seen[r.StateKey] {
						seen[r.StateKey] = true
						states++
						c.Distinct(r.StateKey)
						if states%17 == 0 {
							c.Sample(map[string]interface{}{"history": opsStrings(ops), "results": r.Results, "state": r.StateKey})
						}
						next = append(next, ops)
					}
				}
			}
			frontier = next
		}
		c.State(int64(states))
		c.Set("bfs_depth", depth)
	}
	// ---- (a2) many keys: nothing that depends on how full the backend is may change what it holds -
	if c.Mine(1) {
		InBubble(c.T, func() {
			h0, _ := inmem.New()
			inmem.VerifReset(h0)
			inmemForceFree(h0)
			m := refmodel.New(uint32(time.Now().Unix()))
			total := 2500
			if c.Thorough() {
				total = 70000
			}
			bad := false
			do := func(op wire.Op) {
				if bad {
					return
				}
				h, _ := inmem.New()
				m.Now = uint32(time.Now().Unix())
				e := ExpectH(m, op)
				r := CallHandler(h, op)
				c.Eval(1)
				if cl, d := DiffH(e, r); cl != "" {
					bad = true
					c.Violation(fmt.Sprintf("C17 %s op=%s many-keys", cl, op.Kind), fmt.Sprintf("with %d keys stored: %s: %s", len(m.M), op, d), map[string]interface{}{"keys_stored": len(m.M), "op": op.String()})
				}
			}
			key := func(i int) string { return fmt.Sprintf("bulk-%05d", i) }
			checkAll := func(n int) {
				step := 1
				if n > 4000 {
					step = n / 2000
				}
				for i := 0; i < n && !bad; i += step {
					do(wire.Op{Kind: "get", Key: key(i)})
				}
				// the usual refusals still hold on old keys
				do(wire.Op{Kind: "add", Key: key(0), Val: "usurper"})
				do(wire.Op{Kind: "append", Key: key(1), Val: "+"})
				do(wire.Op{Kind: "get", Key: key(0)})
			}
			for i := 0; i < total && !bad; i++ {
				ttl := uint32(0)
				if i%3 == 2 {
					ttl = 1000 // some entries are temporary and live throughout
				}
				kind := "set"
				if i%5 == 4 {
					kind = "add"
				}
				do(wire.Op{Kind: kind, Key: key(i), Val: fmt.Sprintf("value-%d", i), Flags: uint32(i), TTL: ttl})
				n := i + 1
				if n&(n-1) == 0 || (n-1)&(n-2) == 0 || (n-2)&(n-3) == 0 || n%1000 == 0 || n == total {
					checkAll(n)
				}
			}
			// and after the temporary ones have expired
			if !bad {
				time.Sleep(1001 * time.Second)
				checkAll(total)
			}
			c.Distinct("many-keys")
			c.Nontrivial("many-keys")
			c.Set("bulk_keys", total)
		})
	}
	// ---- (b) all interleavings at lock granularity ---------------------------------------------
	inits := [][]wire.Op{
		nil,
		{{Kind: "set", Key: "a", Val: "i", Flags: 1}},
		{{Kind: "set", Key: "a", Val: "e", Flags: 1, TTL: 5}, {Kind: "advance", Sec: 10}},             // physically present, expired
		{{Kind: "set", Key: "a", Val: "0123456789", Flags: 1}, {Kind: "append", Key: "a", Val: "ab"}}, // grown by an append (spare capacity)
	}
	mk := func(tag string) []wire.Op {
		return []wire.Op{
			{Kind: "get", Key: "a"}, {Kind: "gete", Key: "a"}, {Kind: "mget", Keys: []string{"a", "b"}},
			{Kind: "set", Key: "a", Val: "S" + tag, Flags: 2}, {Kind: "add", Key: "a", Val: "A" + tag, Flags: 3},
			{Kind: "append", Key: "a", Val: "+" + tag}, {Kind: "delete", Key: "a"}, {Kind: "touch", Key: "a", TTL: 0}, {Kind: "gat", Key: "a", TTL: 0},
			{Kind: "replace", Key: "a", Val: "R" + tag, Flags: 4},
			{Kind: "prepend", Key: "a", Val: tag + "+"},
			{Kind: "append", Key: "a", Val: ""}, {Kind: "prepend", Key: "a", Val: ""}, {Kind: "set", Key: "a", Val: "", Flags: 5},
		}
	}
	item := 0
	for _, init := range inits {
		for _, o0 := range mk("0") {
			for _, o1 := range mk("1") {
				third := []wire.Op{{Kind: "get", Key: "a"}, {Kind: "gete", Key: "b"}}
				if c.Thorough() {
					third = mk("2") // a third connection issuing any command
				}
				for _, o2 := range third {
					item++
					if !c.Mine(item) {
						continue
					}
					if c.Expired() {
						return
					}
					sc := InmemScenario{Ops: init, Threads: [][]wire.Op{{o0, {Kind: "get", Key: "a"}}, {o1}, {o2}}}
					ex := &sched.Explorer{Bound: -1, MaxExecs: 50000, Expired: c.Expired}
					outs := map[string]bool{}
					ex.Explore(func(prefix []int) *sched.Sched {
						var r *inmemConc
						sched.Bubble(c.T, func() { r = runInmemConc(sc, prefix) })
						c.Eval(1)
						c.Trace(1)
						c.Trans(int64(len(r.S.Trace)))
						outs[r.Outcome] = true
						for _, f := range r.Findings {
							scc := sc
							scc.Choices = r.S.Choices()
							c.Violation(f.Sig, f.What+"\nschedule: "+r.S.Describe(), scc)
						}
						return r.S
					}, func(s *sched.Sched) bool { return true })
					if ex.Truncated {
						c.Cap("schedule cap reached in the in-memory backend harness")
					}
					key := fmt.Sprintf("conc|%v|%s|%s|%s", opsStrings(init), o0.Kind, o1.Kind, o2.Kind)
					c.Distinct(key)
					if len(outs) > 1 {
						c.Nontrivial(key)
					}
					c.State(int64(len(outs)))
				}
			}
		}
	}
}

// runC17Race is the free-running companion pass (built with -race): many goroutines reading
// missing keys while others write. It is a sampler; a data race or a runtime fatal error kills
// the worker, which the driver reports.
func runC17Race(c *rt.Ctx) {
	h0, _ := inmem.New()
	inmem.VerifReset(h0)
	var wg sync.WaitGroup
	const readers, writers, rounds = 24, 8, 3000
	for g := 0; g < readers; g++ {
		wg.Add(1)
		go func(g int) {
			defer wg.Done()
			h, _ := inmem.New() // a connection of its own
			for i := 0; i < rounds; i++ {
				CallHandler(h, wire.Op{Kind: "get", Key: fmt.Sprintf("missing-%d", i%7)})
				CallHandler(h, wire.Op{Kind: "gete", Key: fmt.Sprintf("k%d", i%5)})
			}
		}(g)
	}
	for g := 0; g < writers; g++ {
		wg.Add(1)
		go func(g int) {
			defer wg.Done()
			h, _ := inmem.New()
			for i := 0; i < rounds; i++ {
				CallHandler(h, wire.Op{Kind: "set", Key: fmt.Sprintf("k%d", i%5), Val: "v", TTL: 0})
				CallHandler(h, wire.Op{Kind: "delete", Key: fmt.Sprintf("k%d", (i+1)%5)})
				CallHandler(h, wire.Op{Kind: "append", Key: fmt.Sprintf("k%d", (i+2)%5), Val: "x"})
				CallHandler(h, wire.Op{Kind: "prepend", Key: fmt.Sprintf("k%d", (i+2)%5), Val: "y"})
				CallHandler(h, wire.Op{Kind: "get", Key: fmt.Sprintf("k%d", (i+2)%5)})
			}
		}(g)
	}
	wg.Wait()
	c.Eval(int64((readers*2 + writers*3) * rounds))
	c.Distinct("race-pass")
	c.Distinct("race-pass-2")
	c.Nontrivial("race-pass")
	c.Nontrivial("race-pass-2")
	c.Sample("32 goroutines: 24 readers of missing keys, 8 writers, free-running under -race")
}
