package h

import (
	"encoding/json"
	"fmt"
	"github.com/netflix/rend/verifshim/vsync"
	"time"

	"verif/refmodel"
	"verif/rt"
	"verif/wire"
)

// PipeScenario is a prefix of commands issued one at a time (establishing a backend state)
// followed by a pipeline written to the socket in one piece, then a sentinel get.
type PipeScenario struct {
	Cfg    Cfg       `json:"cfg"`
	Prefix []wire.Op `json:"prefix"`
	Pipe   []wire.Op `json:"pipe"`
	Port   int       `json:"port,omitempty"` // 1 = the batch port of an l1l2b deployment
}

func init() {
	rt.Register("C08", rt.Harness{Run: runC08, Replay: func(c *rt.Ctx, raw json.RawMessage) string {
		var sc PipeScenario
		if err := json.Unmarshal(raw, &sc); err != nil {
			return "bad scenario: " + err.Error()
		}
		var fs []Finding
		var out string
		InBubble(c.T, func() { fs, out = RunPipe(sc) })
		if len(fs) == 0 {
			return out + "\nOK: no finding"
		}
		s := "VIOLATION reproduced:\n"
		for _, f := range fs {
			s += "  " + f.Sig + " :: " + f.What + "\n"
		}
		return s + out
	}})
}

func pipeAlphabet(cfg Cfg) []wire.Op {
	bin := cfg.Proto == "binary"
	a := []wire.Op{
		{Kind: "get", Key: "a"},
		{Kind: "set", Key: "a", Val: "x", Flags: 9},
		{Kind: "add", Key: "a", Val: "p"},     // fails when a exists
		{Kind: "replace", Key: "c", Val: "q"}, // always fails: c never exists
		{Kind: "append", Key: "a", Val: "s"},  // fails when a is missing
		{Kind: "prepend", Key: "c", Val: "t"}, // always fails
		{Kind: "delete", Key: "a"},
		{Kind: "touch", Key: "c", TTL: 10}, // always fails
		{Kind: "touch", Key: "a", TTL: 10},
		{Kind: "mget", Keys: []string{"a", "b"}, Quiet: []bool{bin, false}},
		{Kind: "mget", Keys: []string{"c", "a", "a"}, Quiet: []bool{bin, bin, false}},
		{Kind: "set", Key: "k%3A%s%d%", Val: "pct", Flags: 3},
		{Kind: "mget", Keys: []string{"k%3A%s%d%", "a"}, Quiet: []bool{bin, false}},
		{Kind: "noop"},
		{Kind: "version"},
		{Kind: "stat"},
	}
	if bin {
		a = append(a,
			wire.Op{Kind: "gat", Key: "a", TTL: 100},
			wire.Op{Kind: "gat", Key: "c", TTL: 100},
			wire.Op{Kind: "mget", Keys: []string{"a", "c", "b"}, Quiet: []bool{true, true, true}, NoopEnd: true},
			wire.Op{Kind: "mget", Keys: []string{"c", "a"}, Quiet: []bool{true, false}},
			wire.Op{Kind: "mget", Keys: []string{"a", "c"}, Quiet: []bool{true, false}},
			wire.Op{Kind: "set", Key: "a", Val: "w", QuietW: true},
			wire.Op{Kind: "add", Key: "a", Val: "v", QuietW: true},
			wire.Op{Kind: "append", Key: "c", Val: "v", QuietW: true},
			// quiet writes are silent only on success: a refusal must still be reported
			wire.Op{Kind: "replace", Key: "c", Val: "v", QuietW: true}, // always refused (not found)
			wire.Op{Kind: "replace", Key: "a", Val: "r", QuietW: true},
			wire.Op{Kind: "prepend", Key: "c", Val: "v", QuietW: true},
		)
	} else {
		a = append(a,
			wire.Op{Kind: "unknown", Key: "a"},
			wire.Op{Kind: "raw", Raw: []byte("touch a abc\r\n")},  // bad numeric field
			wire.Op{Kind: "raw", Raw: []byte("get\r\n")},          // missing key
			wire.Op{Kind: "raw", Raw: []byte("set a 0 0 zz\r\n")}, // bad length, no data block follows
			wire.Op{Kind: "raw", Raw: []byte("set a 1x 0 0\r\n")}, // bad flags (zero-length data never sent)
			wire.Op{Kind: "raw", Raw: []byte("delete a b c\r\n")}, // too many fields
		)
	}
	return a
}

// RunPipe executes one pipeline scenario and applies the reply-discipline oracle.
func RunPipe(sc PipeScenario) (fs []Finding, trace string) {
	vsync.TakeDoublePuts()
	defer func() {
		if f := doublePut("C08"); f != nil {
			fs = append(fs, *f)
		}
	}()
	w := NewWorld(sc.Cfg)
	w.SeqGuard = true
	defer w.Release()
	m := refmodel.New(uint32(time.Now().Unix()))
	s := w.Connect(sc.Port)
	add := func(clause, what string, op wire.Op, exp, got string) {
		fs = append(fs, Finding{Sig: fmt.Sprintf("C08 %s op=%s cfg=%s exp=%s got=%s", clause, opTag(op), cfgClass(sc.Cfg), exp, got), What: what, Clause: clause})
	}
	pre := s
	if sc.Port != 0 {
		pre = w.Connect(0) // the prepared state is written through the main port (fills both tiers)
	}
	for _, op := range sc.Prefix {
		if op.Kind == "evict" { // the cache's own eviction: the model does not change
			for _, k := range w.L1.Keys() {
				if ck, _, ok := ownerOf(k); k == op.Key || (sc.Cfg.L1H == "chunked" && ok && ck == op.Key) {
					w.L1.Evict(k)
				}
			}
			continue
		}
		op.Opaque = uint32(0x100 + 16*len(pre.Ops))
		ApplyModel(m, sc.Cfg.Proto, op)
		pre.Do(op)
	}
	npre := len(s.Ops)
	ops := append(append([]wire.Op{}, sc.Pipe...), wire.Op{Kind: "get", Key: "a"}, wire.Op{Kind: "noop"})
	var exps []Expect
	for i := range ops {
		ops[i].Opaque = uint32(0x10000 + 16*i)
		if ops[i].Kind == "raw" {
			exps = append(exps, Expect{Class: "error"})
		} else {
			exps = append(exps, ApplyModel(m, sc.Cfg.Proto, ops[i]))
		}
	}
	s.DoPipelined(ops)
	ended := s.Ended
	s.Hangup()
	reps, stray, mal := s.Replies()
	reps = reps[npre:]
	trace = fmt.Sprintf("cfg=%s prefix=%v pipe=%v\nstream=%q\n", sc.Cfg, opsStrings(sc.Prefix), opsStrings(ops), s.Cli.Out)
	if pc := s.ParseCalls(); pc >= 0 && pc != len(s.Ops)+1 && !ended {
		add("request-framing", fmt.Sprintf("server parsed %d requests from the %d sent", pc-1, len(s.Ops)), wire.Op{Kind: "pipeline"}, "-", "-")
	}
	if ended {
		add("connection-closed", "server closed the connection in the middle of a pipeline of supported requests", wire.Op{Kind: "pipeline"}, "open", "closed")
	}
	if mal != "" {
		add("malformed-stream", mal, wire.Op{Kind: "pipeline"}, "-", "-")
	}
	first := true
	for i, r := range reps {
		trace += fmt.Sprintf("  %d %s -> %s\n", i, ops[i], r.Canon())
		if c, d := Diff(ops[i], exps[i], r); c != "" && first {
			// only the first divergence is attributed: later ones are usually consequences
			first = false
			add(c, fmt.Sprintf("request %d (%s): %s", i, ops[i], d), ops[i], exps[i].Class, r.Class)
		}
	}
	if stray != 0 && first {
		add("stray-reply", fmt.Sprintf("%d reply frame(s)/byte(s) not attributable to any request", stray), wire.Op{Kind: "pipeline"}, "0", "n")
	}
	if s.Panics != nil {
		add("panic-escaped", fmt.Sprint(s.Panics), wire.Op{Kind: "pipeline"}, "-", "-")
	}
	if t := w.LockTrouble(); t != "" {
		add("key-lock-never-granted", t, wire.Op{Kind: "pipeline"}, "-", "-")
	}
	hung, spun, bad, residue := w.Diag()
	if hung || spun || bad || residue != 0 {
		add("backend-stream", fmt.Sprintf("hung=%v spun=%v garbage=%v residue=%d", hung, spun, bad, residue), wire.Op{Kind: "pipeline"}, "-", "-")
	}
	return fs, trace
}

func opTag(op wire.Op) string {
	t := op.Kind
	if op.Kind == "raw" {
		t = fmt.Sprintf("raw:%q", op.Raw)
	}
	if op.QuietW {
		t += "q"
	}
	if op.Kind == "mget" && op.NoopEnd {
		t += "+noop"
	}
	return t
}

func runC08(c *rt.Ctx) {
	cfgs := AllCfgs([]string{"std"})
	for _, h := range []string{"chunked", "batched"} {
		for _, p := range []string{"binary", "text"} {
			cfgs = append(cfgs, Cfg{Orca: "l1l2", Lock: "none", Proto: p, L1H: h}, Cfg{Orca: "l1only", Lock: "none", Proto: p, L1H: h})
		}
	}
	// deployments built by the real main program (replies are attributed over the whole stream there)
	cfgs = append(cfgs, Cfg{Orca: "l1only", Lock: "none", Proto: "text", L1H: "std", App: true}, Cfg{Orca: "l1l2b", Lock: "multi", Proto: "binary", L1H: "std", App: true, Conc: 2},
		Cfg{Orca: "l1l2b", Lock: "single", Proto: "text", L1H: "chunked", App: true, Conc: 2}, Cfg{Orca: "l1l2b", Lock: "none", Proto: "binary", L1H: "batched", App: true})
	maxLen := 2
	if c.Thorough() {
		maxLen = 3
	}
	prefixes := [][]wire.Op{
		nil,
		{{Kind: "set", Key: "a", Val: "hello", Flags: 3}},
		{{Kind: "set", Key: "a", Val: "", Flags: 0xffffffff}, {Kind: "set", Key: "b", Val: "bee", Flags: 1}},
		// the key has been pushed out of L1 and lives in L2 only (commands then take their L1-miss paths)
		{{Kind: "set", Key: "a", Val: "hello", Flags: 3}, {Kind: "evict", Key: "a"}},
	}
	item := 0
	for _, cfg := range cfgs {
		alpha := pipeAlphabet(cfg)
		for pi, pre := range prefixes {
			if pi == 3 && cfg.Orca == "l1only" {
				continue // nothing behind L1 to serve an evicted key from
			}
			// enumerate all pipelines of length 1..maxLen; the first element selects the work item
			for f := range alpha {
				item++
				if !c.Mine(item) {
					continue
				}
				if c.Expired() {
					return
				}
				if f == 0 {
					c.State(1) // one prepared backend state per (configuration, prefix)
				}
				for _, port := range cfg.Ports() {
					port := port
					var rec func(p []wire.Op)
					rec = func(p []wire.Op) {
						sc := PipeScenario{Cfg: cfg, Prefix: pre, Pipe: p, Port: port}
						var fs []Finding
						var tr string
						InBubble(c.T, func() { fs, tr = RunPipe(sc) })
						c.Eval(1)
						c.Trace(1)
						c.Trans(int64(len(p) + 2))
						key := fmt.Sprintf("%s|%d|%d|%v", cfg, port, pi, opsStrings(p))
						c.Distinct(key)
						fails := 0
						for _, o := range p {
							if o.Kind == "raw" || o.Kind == "unknown" || o.Key == "c" || o.Kind == "add" || o.Kind == "append" || o.Kind == "delete" || o.Kind == "touch" {
								fails++
							}
						}
						if fails > 0 && len(p) > 1 {
							c.Nontrivial(key)
						}
						if len(p) == maxLen && (item%97 == 0) {
							c.Sample(map[string]interface{}{"trace": tr})
						}
						for _, f := range fs {
							c.Violation(f.Sig, f.What+"\n"+tr, sc)
						}
						if len(p) < maxLen {
							for _, nx := range alpha {
								rec(append(append([]wire.Op{}, p...), nx))
							}
						}
					}
					rec([]wire.Op{alpha[f]})
				}
			}
		}
	}
	c.Set("max_pipeline_len", maxLen)
}
