package h

import (
	"fmt"
	"net"
	"runtime"
	"strings"
	"sync"
	"sync/atomic"
	"time"

	"github.com/netflix/rend/handlers/inmem"
	"github.com/netflix/rend/handlers/memcached/batched"
	"github.com/netflix/rend/orcas"
	"github.com/netflix/rend/verifshim/clusterproxyapp"
	"github.com/netflix/rend/verifshim/memproxyapp"
	"github.com/netflix/rend/verifshim/vflag"
	"github.com/netflix/rend/verifshim/vnet"
	"github.com/netflix/rend/verifshim/vsync"

	"verif/fakemc"
)

// Deployments built by rend's own main program (app/memproxy.go, copied into an importable
// package by the overlay generator, nothing edited): the harness supplies the command line, the
// listening sockets (server/listen.go's net.Listen is redirected) and the backends (the dial in
// handlers/memcached/constructors.go and in the batching pool is redirected to fakemc), and talks
// to the server through connections the real accept loop hands to server.ListenAndServe.
//
// Everything the program keeps for ever (two accept loops, main's final wait) is ended with
// runtime.Goexit from inside the shims when the deployment is released; the signal-handler
// goroutine of the program's first init function stays parked (one small goroutine per deployment).

const (
	appUnixPath  = "/nonexistent-verif-dir/rend.sock" // never created: the listener is in memory
	appLockSlot  = 1001                               // of rend's 1024 lock-set slots
	appMainPort  = 11211
	appBatchPort = 11212
)

type appListener struct {
	addr  string
	ch    chan net.Conn
	stop  chan struct{}
	ready chan struct{} // closed at the first Accept
	once  sync.Once
}

func (l *appListener) Accept() (net.Conn, error) {
	l.once.Do(func() { close(l.ready) })
	select {
	case c := <-l.ch:
		return &vnet.TCPConn{Conn: c}, nil
	case <-l.stop:
		runtime.Goexit()
	}
	return nil, nil
}
func (l *appListener) Close() error   { return nil }
func (l *appListener) Addr() net.Addr { return nil }

type appInst struct {
	stop    chan struct{}
	lst     map[int]*appListener
	l1sock  string
	l2sock  string
	dialed  map[int][]*fakemc.Conn
	args    []string
	listens []string
	// lastLockSlot: the program created the lock sets appLockSlot..lastLockSlot (one, as written)
	lastLockSlot uint32
	// Problems: things the program did that the harness did not expect (unknown listen address,
	// unknown backend address, flag errors)
	Problems []string
}

var (
	appSeq int64
	appMu  sync.Mutex
)

// AppArgs is the command line a configuration corresponds to.
func (c Cfg) AppArgs(l1sock, l2sock string) []string {
	a := []string{"-p", fmt.Sprint(appMainPort), "-bp", fmt.Sprint(appBatchPort), "--l1-sock", l1sock}
	if c.Unix {
		a = append(a, "--use-domain-socket", "--sock-path", appUnixPath)
	}
	switch c.L1H {
	case "inmem":
		a = append(a, "--l1-inmem")
	case "chunked":
		a = append(a, "--chunked")
	case "batched":
		a = append(a, "--l1-batched", "--batch-size", "2", "--batch-delay", "100", "--batch-read-buf-size", "512", "--batch-write-buf-size", "512",
			"--batch-eval-interval", "4000000000", "--batch-expand-load-factor-ratio", "1000", "--batch-expand-overloaded-ratio", "1000")
	}
	for _, also := range strings.Split(c.Also, ",") {
		switch also {
		case "chunked":
			a = append(a, "--chunked")
		case "l1-batched":
			a = append(a, "--l1-batched", "--batch-size", "2", "--batch-delay", "100", "--batch-read-buf-size", "512", "--batch-write-buf-size", "512",
				"--batch-eval-interval", "4000000000", "--batch-expand-load-factor-ratio", "1000", "--batch-expand-overloaded-ratio", "1000")
		}
	}
	if c.Orca != "l1only" {
		a = append(a, "--l2-enabled", "--l2-sock", l2sock)
	}
	switch c.Lock {
	case "single":
		a = append(a, "--locked", "--multi-reader=false", "--concurrency", fmt.Sprint(c.Conc))
	case "multi":
		// multi-reader is the program's default
		a = append(a, "--locked", "--concurrency", fmt.Sprint(c.Conc))
	}
	return a
}

// InmemSnapshot renders the in-process L1 (memproxy --l1-inmem) for state keys.
func InmemSnapshot() string {
	h, _ := inmem.New()
	return inmem.VerifSnapshot(h)
}

func (w *World) startApp() {
	if w.Cfg.L1H == "inmem" {
		h, _ := inmem.New()
		inmem.VerifReset(h) // one instance per process, shared by every connection
	}
	n := atomic.AddInt64(&appSeq, 1)
	in := &appInst{stop: make(chan struct{}), lst: map[int]*appListener{}, dialed: map[int][]*fakemc.Conn{},
		l1sock: fmt.Sprintf("verif-app-l1-%d.sock", n), l2sock: fmt.Sprintf("verif-app-l2-%d.sock", n)}
	w.app = in
	in.lst[0] = &appListener{addr: fmt.Sprintf(":%d", appMainPort), ch: make(chan net.Conn), stop: in.stop, ready: make(chan struct{})}
	in.lst[1] = &appListener{addr: fmt.Sprintf(":%d", appBatchPort), ch: make(chan net.Conn), stop: in.stop, ready: make(chan struct{})}
	in.args = w.Cfg.AppArgs(in.l1sock, in.l2sock)
	// the program's orcas.Locked gets slot appLockSlot, whatever the harness has handed out so far
	cursor := orcas.VerifSwapLockCursor(appLockSlot - 1)
	defer func() { in.lastLockSlot = orcas.VerifSwapLockCursor(cursor) }()
	vflag.Reset(in.args)
	vnet.ListenHook = func(network, address string) (net.Listener, error) {
		appMu.Lock()
		defer appMu.Unlock()
		in.listens = append(in.listens, network+" "+address)
		for _, l := range in.lst {
			if network == "tcp" && l.addr == address {
				return l, nil
			}
		}
		if w.Cfg.Unix && network == "unix" && address == appUnixPath {
			return in.lst[0], nil
		}
		in.Problems = append(in.Problems, "listen on unexpected address "+network+" "+address)
		return nil, fmt.Errorf("verif: nothing to listen on at %s %s", network, address)
	}
	vnet.DialHook = func(network, address string) (net.Conn, error) {
		appMu.Lock()
		defer appMu.Unlock()
		tier, store := 0, (*fakemc.Store)(nil)
		switch {
		case network == "unix" && address == in.l1sock:
			tier, store = 1, w.L1
		case network == "unix" && address == in.l2sock:
			tier, store = 2, w.L2
		default:
			in.Problems = append(in.Problems, "dial to unexpected address "+network+" "+address)
			return nil, fmt.Errorf("verif: no backend at %s %s", network, address)
		}
		w.nconn++
		c := fakemc.NewConn(store, fmt.Sprintf("%s#%d", store.Name, w.nconn))
		if tier == 1 && w.Cfg.L1H == "batched" {
			c.Async = true // a pooled connection: its reader goroutine waits for replies
		}
		if w.ConnHook != nil {
			w.ConnHook(tier, c)
		}
		w.Conns = append(w.Conns, c)
		in.dialed[tier] = append(in.dialed[tier], c)
		return c, nil
	}
	vsync.WaitHook = func() bool {
		<-in.stop
		runtime.Goexit()
		return true
	}
	go memproxyapp.VerifRun()
	// the program is up when its accept loops are waiting for clients
	ports := []int{0}
	if w.Cfg.Orca != "l1only" {
		ports = append(ports, 1)
	}
	for _, p := range ports {
		t := time.NewTimer(time.Hour)
		select {
		case <-in.lst[p].ready:
		case <-t.C:
			in.Problems = append(in.Problems, fmt.Sprintf("the program never accepted on %s", in.lst[p].addr))
		}
		t.Stop()
	}
}

func (w *World) stopApp() {
	in := w.app
	if in == nil {
		return
	}
	close(in.stop)
	if w.Cfg.L1H == "batched" {
		batched.VerifForget(in.l1sock)
	}
	vnet.ListenHook, vnet.DialHook, vsync.WaitHook = nil, nil, nil
	w.app = nil
}

// LockSlot returns the lock set of a locked deployment.
func (w *World) LockSlot() uint32 {
	if w.Cfg.App {
		if w.app == nil {
			w.startApp()
		}
		return appLockSlot
	}
	return lockedSlot(w.Cfg)
}

// ExtraLockSlots lists lock sets the deployment created beyond the first (none, as the program is
// written; they are instrumented all the same so that nothing under the scheduler meets a bare mutex).
func (w *World) ExtraLockSlots() []uint32 {
	var out []uint32
	if w.Cfg.App && w.app != nil {
		for s := uint32(appLockSlot + 1); s <= w.app.lastLockSlot && s < 1024; s++ {
			out = append(out, s)
		}
	}
	return out
}

// AppCfgsRare: the rarely used start-up variants (domain socket listener, in-process debug L1).
func AppCfgsRare() []Cfg {
	var out []Cfg
	for _, p := range []string{"binary", "text"} {
		out = append(out,
			Cfg{Orca: "l1only", Lock: "none", Proto: p, L1H: "std", App: true, Unix: true},
			Cfg{Orca: "l1l2b", Lock: "multi", Proto: p, L1H: "std", App: true, Unix: true, Conc: 2},
			Cfg{Orca: "l1only", Lock: "none", Proto: p, L1H: "inmem", App: true},
			Cfg{Orca: "l1l2b", Lock: "single", Proto: p, L1H: "inmem", App: true, Conc: 2},
			// redundant handler flags: the program's precedence decides, for both ports alike
			Cfg{Orca: "l1l2b", Lock: "none", Proto: p, L1H: "chunked", App: true, Also: "l1-batched"},
			Cfg{Orca: "l1l2b", Lock: "multi", Proto: p, L1H: "inmem", App: true, Also: "chunked,l1-batched", Conc: 2})
	}
	return out
}

func (w *World) connectApp(port int) *Session {
	if w.app == nil {
		w.startApp()
	}
	in := w.app
	s := &Session{W: w, Port: port, Cli: NewClient()}
	s.Cli.closeEnds = true
	if w.Who != nil {
		s.Cli.tid = w.Who()
	}
	appMu.Lock()
	n1, n2 := len(in.dialed[1]), len(in.dialed[2])
	appMu.Unlock()
	t := time.NewTimer(time.Hour)
	select {
	case in.lst[port].ch <- s.Cli:
		t.Stop()
	case <-t.C:
		// nobody accepts on this port
		s.Ended, s.Stuck = true, true
		return s
	}
	s.waitIdle()
	appMu.Lock()
	if w.Cfg.L1H == "batched" {
		s.L1c = fakemc.NewConn(w.L1, "unused") // the pool owns the backend connections
		w.L1.Opened--
	} else if len(in.dialed[1]) > n1 {
		s.L1c = in.dialed[1][n1]
	}
	if len(in.dialed[2]) > n2 {
		s.L2c = in.dialed[2][n2]
	}
	appMu.Unlock()
	return s
}

// AppCfgs is every deployment shape app/memproxy.go can be started in (the in-process debug L1 is
// C17's subject), for both protocols.
func AppCfgs() []Cfg {
	var out []Cfg
	for _, o := range []string{"l1only", "l1l2b"} {
		for _, h := range []string{"std", "chunked", "batched"} {
			for _, l := range []string{"none", "single", "multi"} {
				for _, p := range []string{"binary", "text"} {
					out = append(out, Cfg{Orca: o, Lock: l, Proto: p, L1H: h, App: true, Conc: 2})
				}
			}
		}
	}
	return out
}

// startClusterProxy runs app/memcached_cluster_proxy.go's program (source cluster = the given nodes,
// no destination cluster) and returns the listener its accept loop reads from. stop ends the
// program's accept loop and main.
func startClusterProxy(stop chan struct{}, hosts []string, dial func(network, address string) (net.Conn, error)) (*appListener, string) {
	l := &appListener{addr: fmt.Sprintf(":%d", appMainPort), ch: make(chan net.Conn), stop: stop, ready: make(chan struct{})}
	problem := ""
	vflag.Reset([]string{"-p", fmt.Sprint(appMainPort), "--source-hostnames", strings.Join(hosts, ","), "--destination-cluster-type", "noop", "--destination-hostnames", "unused:1"})
	vnet.ListenHook = func(network, address string) (net.Listener, error) {
		if network == "tcp" && address == l.addr {
			return l, nil
		}
		problem = "listen on unexpected address " + network + " " + address
		return nil, fmt.Errorf("verif: nothing to listen on at %s %s", network, address)
	}
	vnet.DialHook = dial
	vsync.WaitHook = func() bool {
		<-stop
		runtime.Goexit()
		return true
	}
	go clusterproxyapp.VerifRun()
	t := time.NewTimer(time.Hour)
	defer t.Stop()
	select {
	case <-l.ready:
	case <-t.C:
		problem += " the program never accepted on " + l.addr
	}
	return l, problem
}
