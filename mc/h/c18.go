package h

import (
	"fmt"
	"io"
	"math"
	"net/http"
	"net/http/httptest"
	"sort"
	"strconv"
	"strings"
	"sync"

	"github.com/netflix/rend/metrics"

	"verif/rt"
)

func init() {
	rt.Register("C18", rt.Harness{Run: runC18})
}

// scrape reads the /metrics endpoint the way a poller would and returns the int metrics of one
// histogram keyed by statistic, plus counters by name.
// ScrapeDuplicate is set when a scrape reports one metric (name and tags) on two lines.
var ScrapeDuplicate string

// failingWriter is a poller that has hung up: the reply cannot be written.
type failingWriter struct{ h http.Header }

func (f *failingWriter) Header() http.Header       { return f.h }
func (f *failingWriter) Write([]byte) (int, error) { return 0, io.ErrClosedPipe }
func (f *failingWriter) WriteHeader(int)           {}

// abortedScrape requests /metrics for a poller that is gone before the page is written.
func abortedScrape() {
	http.DefaultServeMux.ServeHTTP(&failingWriter{h: http.Header{}}, httptest.NewRequest("GET", "/metrics", nil))
}

func scrape(histName string) (stats map[string]uint64, counters map[string]uint64, present map[string]bool) {
	rec := httptest.NewRecorder()
	http.DefaultServeMux.ServeHTTP(rec, httptest.NewRequest("GET", "/metrics", nil))
	stats, counters, present = map[string]uint64{}, map[string]uint64{}, map[string]bool{}
	heads := map[string]bool{}
	for _, ln := range strings.Split(rec.Body.String(), "\n") {
		if sp := strings.LastIndexByte(ln, ' '); sp > 0 && (strings.HasPrefix(ln, "hist_"+histName+"|") || strings.HasPrefix(ln, "verifctr")) {
			if heads[ln[:sp]] && ScrapeDuplicate == "" {
				ScrapeDuplicate = ln[:sp]
			}
			heads[ln[:sp]] = true
		}
		sp := strings.LastIndexByte(ln, ' ')
		if sp < 0 {
			continue
		}
		head, val := ln[:sp], ln[sp+1:]
		parts := strings.Split(head, "|")
		name := parts[0]
		tags := map[string]string{}
		for _, t := range parts[1:] {
			if i := strings.IndexByte(t, '*'); i >= 0 {
				tags[t[:i]] = t[i+1:]
			}
		}
		if name == "hist_"+histName && tags["dataType"] == "uint64" {
			v, err := strconv.ParseUint(val, 10, 64)
			if err == nil {
				stats[tags["statistic"]] = v
				present[tags["statistic"]] = true
			}
		}
		if strings.HasPrefix(name, "verifctr") {
			v, err := strconv.ParseUint(val, 10, 64)
			if err == nil {
				counters[name] = v
			}
		}
	}
	return
}

var pctlNames = func() []string {
	var n []string
	for i := 0; i <= 20; i++ {
		n = append(n, fmt.Sprintf("percentile%d", i*5))
	}
	return append(n, "percentile99", "percentile99.9")
}()

// checkPeriod applies the histogram oracle to one reporting period.
func checkPeriod(obs []uint64, sampled bool, count, kept uint64, pct map[string]uint64, havePct bool) (clause, detail string) {
	if count != uint64(len(obs)) {
		return "hist-count", fmt.Sprintf("reported count %d for %d observations", count, len(obs))
	}
	if len(obs) == 0 {
		return "", ""
	}
	wantKept := uint64(len(obs))
	if sampled {
		wantKept = uint64(len(obs) / 4)
	}
	if kept != wantKept {
		return "hist-kept", fmt.Sprintf("reported kept %d, expected %d", kept, wantKept)
	}
	if !havePct || wantKept == 0 {
		return "", ""
	}
	set := map[uint64]bool{}
	mn, mx := uint64(math.MaxUint64), uint64(0)
	for _, v := range obs {
		set[v] = true
		if v < mn {
			mn = v
		}
		if v > mx {
			mx = v
		}
	}
	if pct["percentile0"] != mn || pct["percentile100"] != mx {
		return "hist-minmax", fmt.Sprintf("reported min/max %d/%d, observations have %d/%d", pct["percentile0"], pct["percentile100"], mn, mx)
	}
	for _, n := range pctlNames {
		v := pct[n]
		if v < mn || v > mx {
			return "hist-percentile-range", fmt.Sprintf("%s = %d outside [min %d, max %d] of the period", n, v, mn, mx)
		}
		if !set[v] {
			return "hist-percentile-foreign", fmt.Sprintf("%s = %d is not one of the period's observations", n, v)
		}
	}
	return "", ""
}

const refillRing = 32768

// ringRefillHistory: on a fresh histogram, period A fills the ring with M, period B is a single
// observation (it uses the other buffer), period C fills the ring again with k kept observations of
// L < M and the rest H > M. A slot that C does not overwrite still holds M, which sorts to rank ~k.
func ringRefillHistory(name string, sampled bool, k, stride int) (clause, detail string) {
	const L, M, H = 100, 500, 900
	id := metrics.AddHistogram(name, sampled, nil)
	a := make([]uint64, refillRing*stride)
	for i := range a {
		a[i] = M
	}
	cobs := make([]uint64, refillRing*stride)
	for i := range cobs {
		if i < k*stride {
			cobs[i] = L
		} else {
			cobs[i] = H
		}
	}
	for pi, obs := range [][]uint64{a, {M + 1}, cobs} {
		for _, v := range obs {
			metrics.ObserveHist(id, v)
		}
		s := metrics.VerifExtractHist(id)
		st := map[string]uint64{}
		for i, nm := range pctlNames {
			st[nm] = s.Percentiles[i]
		}
		if clause, detail = checkPeriod(obs, sampled, s.Count, s.Kept, st, true); clause != "" {
			return clause, fmt.Sprintf("period %d of (ring full of %d | one observation | %d x %d then %d): %s", pi, M, k*stride, L, H, detail)
		}
	}
	return "", ""
}

func multisets(vals []uint64, size int, f func(ms []uint64)) {
	cur := make([]uint64, 0, size)
	var rec func(start int)
	rec = func(start int) {
		if len(cur) == size {
			f(append([]uint64{}, cur...))
			return
		}
		for i := start; i < len(vals); i++ {
			cur = append(cur, vals[i])
			rec(i)
			cur = cur[:len(cur)-1]
		}
	}
	rec(0)
}

func runC18(c *rt.Ctx) {
	exploreMetricsRaces(c)
	exploreScrapeRaces(c)
	bounds := metrics.VerifBucketBounds()
	// ---- (a) bucket index and bit count on every boundary class -------------------------------
	if c.Mine(0) {
		pts := map[uint64]bool{0: true, math.MaxInt64: true, math.MaxInt64 - 1: true}
		for _, b := range bounds {
			u := uint64(b)
			pts[u], pts[u-1] = true, true
			if u < math.MaxInt64 {
				pts[u+1] = true
			}
		}
		for k := uint(0); k < 63; k++ {
			p := uint64(1) << k
			pts[p], pts[p-1], pts[p+1] = true, true, true
			for j := uint(0); j < k; j++ {
				pts[p|uint64(1)<<j] = true
			}
			// thirds of every power of four (the bucket step)
			pts[p+p/3], pts[p+p/3-1], pts[p+p/3+1] = true, true, true
			pts[p+2*(p/3)], pts[p+2*(p/3)-1], pts[p+2*(p/3)+1] = true, true, true
		}
		for v := uint64(0); v <= 1<<17; v++ {
			pts[v] = true
		}
		var sorted []uint64
		for v := range pts {
			if v <= math.MaxInt64 {
				sorted = append(sorted, v)
			}
		}
		sort.Slice(sorted, func(i, j int) bool { return sorted[i] < sorted[j] })
		prev := uint64(0)
		for i, v := range sorted {
			b := metrics.VerifGetBucket(v)
			c.Eval(1)
			if b >= uint64(len(bounds)) {
				c.Violation("C18 bucket-out-of-range", fmt.Sprintf("value %d -> bucket %d of %d", v, b, len(bounds)), map[string]interface{}{"value": v})
				continue
			}
			if uint64(bounds[b]) < v {
				c.Violation("C18 bucket-bound-below-value", fmt.Sprintf("value %d counted in bucket %d whose upper bound is %d", v, b, bounds[b]), map[string]interface{}{"value": v})
			}
			if i > 0 && b < prev {
				c.Violation("C18 bucket-not-monotone", fmt.Sprintf("bucket(%d)=%d < bucket(%d)=%d", v, b, sorted[i-1], prev), map[string]interface{}{"value": v})
			}
			prev = b
			c.Distinct(fmt.Sprintf("b%d", b))
		}
		c.Set("bucket_points", len(sorted))
		// assembly vs portable bit count: all of the above plus every 64-bit value with <= 3 bits set
		n := 0
		cmp := func(v uint64) {
			n++
			if a, p := metrics.VerifLzcnt(v), metrics.VerifPortableLzcnt(v); a != p {
				c.Violation("C18 lzcnt-mismatch", fmt.Sprintf("lzcnt(%#x): selected implementation %d, portable %d", v, a, p), map[string]interface{}{"value": v})
			}
		}
		for v := range pts {
			cmp(v)
			cmp(^v)
		}
		for i := uint(0); i < 64; i++ {
			for j := uint(0); j <= i; j++ {
				for k := uint(0); k <= j; k++ {
					cmp(uint64(1)<<i | uint64(1)<<j | uint64(1)<<k)
				}
			}
		}
		c.Eval(int64(n))
		c.Set("lzcnt_inputs", n)
		c.Sample(map[string]interface{}{"value": 16, "bucket": metrics.VerifGetBucket(16), "bound": bounds[metrics.VerifGetBucket(16)]})
	}

	// ---- (b) histograms over two consecutive reporting periods --------------------------------
	vals := []uint64{0, 1, 15, 16, 1 << 32, math.MaxInt64}
	item := 0
	for _, sampled := range []bool{false, true} {
		name := fmt.Sprintf("verif%d_%v", c.Shard, sampled)
		id := metrics.AddHistogram(name, sampled, nil)
		for size := 1; size <= 4; size++ {
			var all [][]uint64
			multisets(vals, size, func(ms []uint64) { all = append(all, ms) })
			for i, ms := range all {
				item++
				if !c.Mine(item) {
					continue
				}
				other := all[(i+len(all)/2+1)%len(all)]
				// two consecutive periods: first `other` (leaves stale contents in the buffers),
				// then ms; both are checked
				for pi, obs := range [][]uint64{other, ms, ms} {
					before := metrics.VerifBucketCounts(id)
					for _, v := range obs {
						metrics.ObserveHist(id, v)
					}
					var st map[string]uint64
					var present map[string]bool
					twice := false
					viaHTTP := pi < 2
					var clause, detail string
					if viaHTTP {
						if pi == 1 && item%2 == 0 {
							twice = true
							// a poller asked for the page and hung up before it could be written: this
							// period's page (data is taken out of the histograms when it is rendered)
							// is lost, the next poller must still get a page of its own
							abortedScrape()
							for _, v := range obs {
								metrics.ObserveHist(id, v)
							}
						}
						st, _, present = scrape(name)
						if ScrapeDuplicate != "" {
							c.Violation("C18 metric-reported-twice", "one scrape lists "+ScrapeDuplicate+" on two lines (with different values, a poller cannot tell which is this period's)", map[string]interface{}{"sampled": sampled, "observations": obs})
							ScrapeDuplicate = ""
						}
						clause, detail = checkPeriod(obs, sampled, st["count"], st["kept"], st, present["percentile50"])
					} else {
						s := metrics.VerifExtractHist(id)
						st = map[string]uint64{}
						for k, n := range pctlNames {
							st[n] = s.Percentiles[k]
						}
						if s.Kept == 0 {
							st = nil
						}
						clause, detail = checkPeriod(obs, sampled, s.Count, s.Kept, st, s.Kept > 0)
					}
					c.Eval(1)
					c.Trace(1)
					c.Distinct(fmt.Sprintf("%v|%v|%v", sampled, other, ms))
					if len(obs) > 1 && obs[0] != obs[len(obs)-1] {
						c.Nontrivial(fmt.Sprintf("%v|%v|%v", sampled, other, ms))
					}
					if clause != "" {
						c.Violation("C18 "+clause, fmt.Sprintf("sampled=%v period %d observations %v (previous period %v): %s", sampled, pi, obs, other, detail),
							map[string]interface{}{"sampled": sampled, "previous": other, "observations": obs})
					}
					after := metrics.VerifBucketCounts(id)
					var delta uint64
					for k := range after {
						delta += after[k] - before[k]
					}
					if twice {
						delta /= 2 // the period was observed once more after the aborted scrape
					}
					if delta != uint64(len(obs)) {
						c.Violation("C18 bucket-count", fmt.Sprintf("bucket counts grew by %d for %d observations", delta, len(obs)), map[string]interface{}{"observations": obs})
					}
					if item%40 == 0 && pi == 1 {
						c.Sample(map[string]interface{}{"sampled": sampled, "previous_period": other, "observations": obs, "reported": st})
					}
				}
			}
		}
		// large patterned periods around the ring size
		for _, n := range []int{32767, 32768, 32769, 100000} {
			item++
			if !c.Mine(item) {
				continue
			}
			for rep := 0; rep < 2; rep++ {
				obs := make([]uint64, n)
				for i := range obs {
					obs[i] = uint64((i*7919+rep*13)%100003) + 1000*uint64(rep+1)
				}
				for _, v := range obs {
					metrics.ObserveHist(id, v)
				}
				s := metrics.VerifExtractHist(id)
				st := map[string]uint64{}
				for k, nm := range pctlNames {
					st[nm] = s.Percentiles[k]
				}
				// with more kept observations than ring slots only the newest ones are retained:
				// percentiles must still be observations of this period
				wantKept := uint64(n)
				if sampled {
					wantKept = uint64(n / 4)
				}
				clause, detail := "", ""
				if s.Count != uint64(n) {
					clause, detail = "hist-count", fmt.Sprintf("count %d for %d observations", s.Count, n)
				} else if s.Kept != wantKept {
					clause, detail = "hist-kept", fmt.Sprintf("kept %d expected %d", s.Kept, wantKept)
				} else {
					clause, detail = checkPeriod(obs, sampled, s.Count, s.Kept, st, true)
				}
				c.Eval(1)
				c.Distinct(fmt.Sprintf("large|%v|%d|%d", sampled, n, rep))
				c.Nontrivial(fmt.Sprintf("large|%v|%d|%d", sampled, n, rep))
				if clause != "" {
					c.Violation("C18 "+clause, fmt.Sprintf("sampled=%v %d patterned observations, period %d: %s", sampled, n, rep, detail), map[string]interface{}{"sampled": sampled, "n": n, "rep": rep})
				}
			}
		}
	}

	// ---- a ring slot that a full period fails to overwrite keeps a value of an older period (the
	// buffers are sorted in place and swapped, never cleared). Directed three-period histories make
	// such a value visible at every rank the report samples (ringRefillHistory), for every k within
	// +-2 of every sampled rank. Each history has a histogram (fresh buffers) of its own.
	for _, sampled := range []bool{false, true} {
		stride := 1
		if sampled {
			stride = 4
		}
		var ranks []int
		for i := 1; i < 20; i++ {
			ranks = append(ranks, refillRing*i/20)
		}
		ranks = append(ranks, refillRing*99/100, refillRing*999/1000)
		for _, rk := range ranks {
			item++
			if !c.Mine(item) {
				continue
			}
			for d := -2; d <= 2; d++ {
				k := rk + d
				clause, detail := ringRefillHistory(fmt.Sprintf("verifstale%d_%v_%d", c.Shard, sampled, k), sampled, k, stride)
				c.Eval(1)
				c.Distinct(fmt.Sprintf("stale|%v|%d", sampled, k))
				c.Nontrivial(fmt.Sprintf("stale|%v|%d", sampled, k))
				if clause != "" {
					c.Violation("C18 "+clause+" ring-refill", fmt.Sprintf("sampled=%v: %s", sampled, detail), map[string]interface{}{"sampled": sampled, "k": k, "stride": stride})
				}
			}
		}
	}

	// ---- histograms do not share anything: a busy one (more observations in a period than the ring
	// holds) next to quiet ones registered right before and after it, for both parities of the busy
	// one's buffer swap at the time the neighbours are registered
	if c.Mine(2) {
		for _, pollsBefore := range []int{0, 1, 2} {
			mk := func(tag string) uint32 {
				return metrics.AddHistogram(fmt.Sprintf("verifiso%d_%d_%s", c.Shard, pollsBefore, tag), false, nil)
			}
			hs := []uint32{mk("a")}
			for i := 0; i < pollsBefore; i++ {
				metrics.ObserveHist(hs[0], 5)
				metrics.VerifExtractHist(hs[0])
			}
			hs = append(hs, mk("b"), mk("c"))
			for busy := range hs {
				quiet := map[int]uint64{}
				for qi := range hs {
					if qi != busy {
						quiet[qi] = uint64(7 + 2*qi)
						metrics.ObserveHist(hs[qi], quiet[qi])
					}
				}
				n := 40000
				obs := make([]uint64, n)
				for i := range obs {
					obs[i] = 1000000 + uint64((i*7919)%100003)
					metrics.ObserveHist(hs[busy], obs[i])
				}
				for qi, v := range quiet {
					s := metrics.VerifExtractHist(hs[qi])
					st := map[string]uint64{}
					for k, nm := range pctlNames {
						st[nm] = s.Percentiles[k]
					}
					c.Eval(1)
					if clause, detail := checkPeriod([]uint64{v}, false, s.Count, s.Kept, st, s.Kept > 0); clause != "" {
						c.Violation("C18 "+clause+" neighbouring-histogram", fmt.Sprintf("a histogram with the single observation %d, registered next to one that took %d observations in the period (%d polls of the first before the others were registered): %s", v, n, pollsBefore, detail),
							map[string]interface{}{"polls_before": pollsBefore, "busy": busy, "quiet": qi})
					}
				}
				s := metrics.VerifExtractHist(hs[busy])
				st := map[string]uint64{}
				for k, nm := range pctlNames {
					st[nm] = s.Percentiles[k]
				}
				if clause, detail := checkPeriod(obs, false, s.Count, s.Kept, st, true); clause != "" && s.Count == uint64(n) {
					c.Violation("C18 "+clause+" neighbouring-histogram", fmt.Sprintf("the busy histogram (%d observations, quiet neighbours): %s", n, detail), map[string]interface{}{"polls_before": pollsBefore, "busy": busy})
				}
				c.Distinct(fmt.Sprintf("iso|%d|%d", pollsBefore, busy))
				c.Nontrivial(fmt.Sprintf("iso|%d|%d", pollsBefore, busy))
			}
		}
	}

	// ---- series told apart by user tags: histograms, counters and gauges that share a name and
	// differ in their tags, every subset of the histograms idle in a period. Every series of the
	// page appears once, under its own tags, with its own numbers.
	if c.Mine(3) {
		name := fmt.Sprintf("veriftag%d", c.Shard)
		tagsets := []metrics.Tags{{"port": "main"}, {"port": "batch"}, nil, {"backend": "l1", "port": "main"}, {"port": "main", "zone": "b"}}
		var hids, cids, gids []uint32
		for _, ts := range tagsets {
			hids = append(hids, metrics.AddHistogram(name, false, ts))
			cids = append(cids, metrics.AddCounter(name+"_ctr", ts))
			gids = append(gids, metrics.AddIntGauge(name+"_gauge", ts))
		}
		userKey := func(ts metrics.Tags) string {
			var kv []string
			for k, v := range ts {
				kv = append(kv, k+"*"+v)
			}
			sort.Strings(kv)
			return strings.Join(kv, "|")
		}
		ctrWant := make([]uint64, len(tagsets))
		for mask := 0; mask < 1<<uint(len(tagsets)); mask++ {
			nobs := make([]int, len(tagsets))
			for i := range tagsets {
				if mask&(1<<uint(i)) != 0 {
					nobs[i] = 2 + i + mask%3
					for j := 0; j < nobs[i]; j++ {
						metrics.ObserveHist(hids[i], uint64(1000*(i+1)+j))
					}
				}
				metrics.IncCounterBy(cids[i], uint64(i+1))
				ctrWant[i] += uint64(i + 1)
				metrics.SetIntGauge(gids[i], uint64(100*mask+i))
			}
			rec := httptest.NewRecorder()
			http.DefaultServeMux.ServeHTTP(rec, httptest.NewRequest("GET", "/metrics", nil))
			// series -> statistic -> value, for the lines of this section's metrics
			type ser struct{ name, user string }
			got := map[ser]map[string]string{}
			problem := ""
			for _, ln := range strings.Split(rec.Body.String(), "\n") {
				sp := strings.LastIndexByte(ln, ' ')
				if sp < 0 || !strings.Contains(ln[:sp], name) {
					continue
				}
				parts := strings.Split(ln[:sp], "|")
				if strings.HasPrefix(parts[0], "bhist_") {
					continue
				}
				user := metrics.Tags{}
				stat, dtype := "", ""
				for _, t := range parts[1:] {
					i := strings.IndexByte(t, '*')
					if i < 0 {
						continue
					}
					switch t[:i] {
					case "statistic":
						stat = t[i+1:]
					case "dataType":
						dtype = t[i+1:]
					case "type":
					default:
						user[t[:i]] = t[i+1:]
					}
				}
				k := ser{parts[0], userKey(user)}
				if got[k] == nil {
					got[k] = map[string]string{}
				}
				sk := stat + "/" + dtype
				if _, dup := got[k][sk]; dup && problem == "" {
					problem = fmt.Sprintf("series %s{%s} reports %q twice", k.name, k.user, stat)
				}
				got[k][sk] = ln[sp+1:]
			}
			u64 := func(m map[string]string, k string) (uint64, bool) {
				v, err := strconv.ParseUint(m[k], 10, 64)
				return v, err == nil
			}
			for i, ts := range tagsets {
				if problem != "" {
					break
				}
				h := got[ser{"hist_" + name, userKey(ts)}]
				cnt, ok := u64(h, "count/uint64")
				switch {
				case !ok:
					problem = fmt.Sprintf("histogram {%s}: no count on the page", userKey(ts))
				case cnt != uint64(nobs[i]):
					problem = fmt.Sprintf("histogram {%s}: %d observations in the period, count reported %d", userKey(ts), nobs[i], cnt)
				}
				for _, pn := range pctlNames {
					v, ok := u64(h, pn+"/uint64")
					if problem != "" {
						break
					}
					if nobs[i] == 0 {
						if ok {
							problem = fmt.Sprintf("histogram {%s}: idle in the period but %s = %d reported", userKey(ts), pn, v)
						}
						continue
					}
					if !ok {
						problem = fmt.Sprintf("histogram {%s}: %d observations but no %s on the page", userKey(ts), nobs[i], pn)
					} else if v < uint64(1000*(i+1)) || v > uint64(1000*(i+1)+nobs[i]-1) {
						problem = fmt.Sprintf("histogram {%s}: observations %d..%d, %s reported as %d", userKey(ts), 1000*(i+1), 1000*(i+1)+nobs[i]-1, pn, v)
					}
				}
				if problem != "" {
					break
				}
				if v, ok := u64(got[ser{name + "_ctr", userKey(ts)}], "/uint64"); !ok || v != ctrWant[i] {
					problem = fmt.Sprintf("counter {%s}: increments sum to %d, page says %d (present=%v)", userKey(ts), ctrWant[i], v, ok)
				} else if v, ok := u64(got[ser{name + "_gauge", userKey(ts)}], "/uint64"); !ok || v != uint64(100*mask+i) {
					problem = fmt.Sprintf("gauge {%s}: set to %d, page says %d (present=%v)", userKey(ts), 100*mask+i, v, ok)
				}
			}
			c.Eval(1)
			c.Distinct(fmt.Sprintf("tagged|%d", mask))
			c.Nontrivial(fmt.Sprintf("tagged|%d", mask))
			if problem != "" {
				c.Violation("C18 tagged-series", fmt.Sprintf("five histograms, counters and gauges sharing a name and differing in tags, busy histograms = bitmask %05b: %s", mask, problem), map[string]interface{}{"mask": mask})
				break
			}
		}
	}

	// ---- counters: sequential sums, then a free-running concurrent pass (sampler) --------------
	if c.Mine(1) {
		ctr := metrics.AddCounter(fmt.Sprintf("verifctr%d", c.Shard), nil)
		var want uint64
		for i := uint64(0); i < 1000; i++ {
			metrics.IncCounter(ctr)
			metrics.IncCounterBy(ctr, i*i)
			want += 1 + i*i
		}
		_, ctrs, _ := scrape("none")
		if got := ctrs[fmt.Sprintf("verifctr%d", c.Shard)]; got != want {
			c.Violation("C18 counter-sum", fmt.Sprintf("counter reports %d after increments summing to %d", got, want), nil)
		}
		c.Eval(1)
		var wg sync.WaitGroup
		const g, per = 8, 20000
		for i := 0; i < g; i++ {
			wg.Add(1)
			go func(i int) {
				defer wg.Done()
				for k := 0; k < per; k++ {
					if k%2 == 0 {
						metrics.IncCounter(ctr)
					} else {
						metrics.IncCounterBy(ctr, 3)
					}
				}
			}(i)
		}
		wg.Wait()
		want += g * (per/2 + 3*per/2)
		if got := metrics.VerifCounter(ctr); got != want {
			c.Violation("C18 counter-lost-update", fmt.Sprintf("counter reports %d after concurrent increments summing to %d", got, want), nil)
		}
		c.Set("sampler_concurrent_increments", g*per)
	}
}
