// rend's go.mod says "go 1.14": binaries built from it run with the runtime settings of that
// language version. The one that changes what rend's own code observes is panicnil=1 (a panic with a
// nil value is recovered as nil, so "if r := recover(); r != nil" does not see it); the harness
// module is newer and would otherwise run rend's code under different rules than a real memproxy.
//
//go:debug panicnil=1
package h

import (
	"testing"

	"verif/rt"
)

// TestVerif is the single entry point; the harness is selected by VERIF_ID.
func TestVerif(t *testing.T) { rt.Main(t) }
