package h

import (
	"testing"

	"verif/rt"
)

// TestVerif is the single entry point; the harness is selected by VERIF_ID.
func TestVerif(t *testing.T) { rt.Main(t) }
