package h

import (
	"bytes"
	"encoding/binary"
	"fmt"
	"github.com/netflix/rend/verifshim/vsync"
	"hash/fnv"
	"regexp"
	"sort"
	"strconv"
	"strings"
	"time"

	"github.com/netflix/rend/handlers/memcached/chunked"

	"verif/fakemc"
	"verif/refmodel"
	"verif/wire"
)

// Constants the properties state (C16): slab budget, item overhead, token size, metadata size.
const (
	slabBudget   = 1184
	itemOverhead = 67
	tokenLen     = 16
	metaLen      = 40
)

// payloadFor is the per-chunk payload for a key length as the properties describe it
// (1184 - 71 - keylen - 16).
func payloadFor(keylen int) int { return slabBudget - 71 - keylen - tokenLen }

// ChunkScenario is a sequence of commands on one chunked handler over one fake backend; ops of
// kind "evict" name a *backend* entry to remove (loss), "advance" moves the clock.
type ChunkScenario struct {
	Harness string    `json:"harness"`
	Ops     []wire.Op `json:"ops"`
	Lossy   bool      `json:"lossy,omitempty"` // entries are removed behind the handler's back: physical invariants are not demanded
	// Faults: deviations of the backend, by request index on the handler's connection
	Faults map[int]fakemc.Fault `json:"faults,omitempty"`
}

// ChunkOpts selects oracles.
type ChunkOpts struct {
	NoModel   bool
	NoPhys    bool
	KeepLog   bool
	AfterEach func(i int, op wire.Op, st *fakemc.Store, m *refmodel.Model, res HRes) (clause, detail string)
}

// ChunkResult is what one execution produced.
type ChunkResult struct {
	Findings []Finding
	Results  []string
	StateKey string
	Store    *fakemc.Store
	Orphans  int
	MaxVal   int
}

var chunkEntryRe = regexp.MustCompile(`^(.*)-(meta|[0-9]+)$`)

// ownerOf splits a backend entry name into the client key it is derived from and its role.
func ownerOf(entry string) (client string, role string, ok bool) {
	m := chunkEntryRe.FindStringSubmatch(entry)
	if m == nil {
		return "", "", false
	}
	return m[1], m[2], true
}

func h32(b []byte) string {
	h := fnv.New64a()
	h.Write(b)
	return strconv.FormatUint(h.Sum64(), 36)
}

// chunkDump renders the backend canonically: random tokens are renamed by first occurrence and
// payloads are hashed.
func chunkDump(st *fakemc.Store) string {
	tok := map[string]int{}
	tid := func(b []byte) int {
		s := string(b)
		if v, ok := tok[s]; ok {
			return v
		}
		tok[s] = len(tok)
		return tok[s]
	}
	now := st.Now()
	var sb strings.Builder
	for _, k := range st.Keys() {
		it := st.M[k]
		rel := int64(-1)
		if it.Exp != 0 {
			rel = int64(it.Exp) - int64(now)
		}
		_, role, ok := ownerOf(k)
		switch {
		case ok && role == "meta" && len(it.Val) == metaLen:
			exp := binary.BigEndian.Uint32(it.Val[20:24])
			erel := int64(-1)
			if exp != 0 {
				erel = int64(exp) - int64(now)
			}
			fmt.Fprintf(&sb, "%q=M[%x|t%d|e%d]/%x/%d;", k, it.Val[0:16], tid(it.Val[24:40]), erel, it.Flags, rel)
		case ok && len(it.Val) >= tokenLen:
			fmt.Fprintf(&sb, "%q=C[t%d|%s|%d]/%x/%d;", k, tid(it.Val[:tokenLen]), h32(it.Val[tokenLen:]), len(it.Val), it.Flags, rel)
		default:
			fmt.Fprintf(&sb, "%q=?[%s|%d]/%x/%d;", k, h32(it.Val), len(it.Val), it.Flags, rel)
		}
	}
	return sb.String()
}

// physCheck verifies the physical layout of every live model key and the absence of entries not
// derived from a key the model knows or has known. touched is the set of client keys ever
// operated on.
func physCheck(st *fakemc.Store, m *refmodel.Model, touched map[string]bool) (clause, detail string, orphans int) {
	st.Purge()
	for k := range m.M {
		e, ok := m.Live(k)
		if !ok {
			continue
		}
		p := payloadFor(len(k))
		n := (len(e.Val) + p - 1) / p
		meta := st.M[k+"-meta"]
		if meta == nil {
			return "layout-meta-missing", fmt.Sprintf("key %q is live in the model but its metadata entry is absent", k), 0
		}
		if len(meta.Val) != metaLen {
			return "layout-meta-size", fmt.Sprintf("metadata of %q has %d bytes", k, len(meta.Val)), 0
		}
		length := int(binary.BigEndian.Uint32(meta.Val[0:4]))
		flags := binary.BigEndian.Uint32(meta.Val[4:8])
		nch := int(binary.BigEndian.Uint32(meta.Val[8:12]))
		csz := int(binary.BigEndian.Uint32(meta.Val[12:16]))
		token := meta.Val[24:40]
		if length != len(e.Val) || flags != e.Flags || nch != n || csz != p {
			return "layout-meta-fields", fmt.Sprintf("metadata of %q says len=%d flags=%x chunks=%d chunksize=%d; expected len=%d flags=%x chunks=%d chunksize=%d", k, length, flags, nch, csz, len(e.Val), e.Flags, n, p), 0
		}
		var buf []byte
		for i := 0; i < n; i++ {
			c := st.M[k+"-"+strconv.Itoa(i)]
			if c == nil {
				return "layout-chunk-missing", fmt.Sprintf("chunk %d of %q absent", i, k), 0
			}
			if len(c.Val) != tokenLen+p {
				return "layout-chunk-size", fmt.Sprintf("chunk %d of %q has %d bytes, expected %d", i, k, len(c.Val), tokenLen+p), 0
			}
			if !bytes.Equal(c.Val[:tokenLen], token) {
				return "layout-chunk-token", fmt.Sprintf("chunk %d of %q carries a different token than its metadata", i, k), 0
			}
			buf = append(buf, c.Val[tokenLen:]...)
		}
		if string(buf[:len(e.Val)]) != e.Val {
			return "layout-bytes", fmt.Sprintf("reassembled chunks of %q differ from the value last written", k), 0
		}
		for _, b := range buf[len(e.Val):] {
			if b != 0 {
				return "layout-padding", fmt.Sprintf("last chunk of %q is not zero padded", k), 0
			}
		}
	}
	// every entry must be derived from a client key that was operated on; entries of keys that are
	// not live must not be reachable (no metadata), except orphan chunks which are counted.
	for _, ek := range st.Keys() {
		ck, role, ok := ownerOf(ek)
		if !ok || !touched[ck] {
			return "foreign-entry", fmt.Sprintf("backend entry %q is not derived from any client key that was operated on", ek), 0
		}
		e, live := m.Live(ck)
		if role == "meta" {
			if !live {
				return "stale-metadata", fmt.Sprintf("metadata %q exists although key %q is absent in the model", ek, ck), 0
			}
			continue
		}
		idx, _ := strconv.Atoi(role)
		if !live {
			orphans++
			continue
		}
		p := payloadFor(len(ck))
		if idx >= (len(e.Val)+p-1)/p {
			orphans++
		}
	}
	return "", "", orphans
}

// RunChunk executes the scenario on a fresh chunked handler.
func RunChunk(sc ChunkScenario, o ChunkOpts) *ChunkResult {
	res := &ChunkResult{}
	vsync.TakeDoublePuts()
	defer func() {
		if f := doublePut(sc.Harness); f != nil {
			res.Findings = append(res.Findings, *f)
		}
	}()
	st := fakemc.NewStore("L1")
	st.LogOn = true
	conn := fakemc.NewConn(st, "L1#1")
	if len(sc.Faults) > 0 {
		conn.Faults = map[int]fakemc.Fault{}
		for i, f := range sc.Faults {
			conn.Faults[i] = f
		}
	}
	h := chunked.NewHandler(conn)
	m := refmodel.New(uint32(time.Now().Unix()))
	touched := map[string]bool{}
	add := func(i int, clause, what string, op wire.Op) {
		res.Findings = append(res.Findings, Finding{
			Sig:    fmt.Sprintf("%s %s op=%s spare=%v", sc.Harness, clause, op.Kind, op.Spare),
			What:   fmt.Sprintf("op %d (%s): %s", i, op, what),
			OpIdx:  i,
			Clause: clause,
		})
	}
	for i, op := range sc.Ops {
		switch op.Kind {
		case "evict":
			st.Evict(op.Key)
			continue
		case "advance":
			time.Sleep(time.Duration(op.Sec) * time.Second)
			continue
		}
		m.Now = uint32(time.Now().Unix())
		keys := op.Keys
		if op.Kind != "mget" {
			keys = []string{op.Key}
		}
		for _, k := range keys {
			touched[k] = true
		}
		var e HRes
		if !o.NoModel {
			e = ExpectH(m, op)
		}
		logStart := len(st.Log)
		r, completed := CallGuarded(conn, h, op)
		res.Results = append(res.Results, r.String())
		if !completed || conn.Hung || conn.Spun {
			break
		}
		if !o.NoModel {
			if c, d := DiffH(e, r); c != "" {
				add(i, c, d, op)
			}
		}
		// every backend request issued by this command must name an entry derived from the
		// command's own key(s)
		for _, lg := range st.Log[logStart:] {
			if lg.Op == fakemc.OpNoop {
				continue
			}
			ck, _, ok := ownerOf(lg.Key)
			mine := false
			for _, k := range keys {
				mine = mine || (ok && ck == k)
			}
			if !mine {
				add(i, "foreign-request", fmt.Sprintf("backend request op=%#x names entry %q which is not derived from the command's key", lg.Op, lg.Key), op)
				break
			}
		}
		if !o.KeepLog {
			st.Log = st.Log[:0]
		}
		if !o.NoPhys && !sc.Lossy && len(res.Findings) == 0 {
			c, d, orph := physCheck(st, m, touched)
			res.Orphans = orph
			if c != "" {
				add(i, c, d, op)
			}
		}
		if o.AfterEach != nil {
			if c, d := o.AfterEach(i, op, st, m, r); c != "" {
				add(i, c, d, op)
			}
		}
		if len(res.Findings) > 0 {
			break
		}
	}
	if conn.Hung {
		res.Findings = append(res.Findings, Finding{Sig: sc.Harness + " backend-read-hang", What: "the handler waited for backend bytes that can never arrive", Clause: "hang"})
	}
	if conn.Spun {
		res.Findings = append(res.Findings, Finding{Sig: sc.Harness + " backend-spin", What: "the handler kept reading a closed backend connection", Clause: "spin"})
	}
	if a, b := conn.Residue(); (a != 0 || b != 0) && !conn.Hung && !conn.Spun {
		res.Findings = append(res.Findings, Finding{Sig: sc.Harness + " backend-residue", What: fmt.Sprintf("%d unread reply bytes / %d partial request bytes left on the backend connection", a, b), Clause: "residue"})
	}
	if conn.BadRequest {
		res.Findings = append(res.Findings, Finding{Sig: sc.Harness + " backend-garbage", What: "the handler sent bytes that are not a request frame", Clause: "garbage"})
	}
	for _, e := range m.M {
		if len(e.Val) > res.MaxVal {
			res.MaxVal = len(e.Val)
		}
	}
	res.Store = st
	mk := make([]string, 0, len(m.M))
	for k := range m.M {
		if e, ok := m.Live(k); ok {
			rel := int64(-1)
			if e.Deadline != 0 {
				rel = int64(e.Deadline) - int64(m.Now)
			}
			mk = append(mk, fmt.Sprintf("%q=%s|%d/%x/%d", k, h32([]byte(e.Val)), len(e.Val), e.Flags, rel))
		}
	}
	sort.Strings(mk)
	res.StateKey = "M:" + strings.Join(mk, ";") + "|B:" + chunkDump(st)
	return res
}

type fakemcStore = fakemc.Store
type refModel = refmodel.Model
