package h

import (
	"fmt"
	"os"
	"runtime"
	"runtime/pprof"
	"testing"

	"verif/wire"
)

// TestLeakProbe (run by hand: VERIF_LEAK=1) measures what one batched-L1 execution leaves behind.
func TestLeakProbe(t *testing.T) {
	if os.Getenv("VERIF_LEAK") == "" {
		t.Skip()
	}
	rss := func() int64 {
		b, _ := os.ReadFile("/proc/self/statm")
		var size, r int64
		fmt.Sscan(string(b), &size, &r)
		return r * int64(os.Getpagesize()) / 1024
	}
	for _, cfg := range []Cfg{{Orca: "l1only", Lock: "none", Proto: "binary", L1H: "batched"}, {Orca: "l1only", Lock: "none", Proto: "binary", L1H: "std"}, {Orca: "l1only", Lock: "none", Proto: "binary", L1H: "batched", App: true}, {Orca: "l1only", Lock: "none", Proto: "binary", L1H: "std", App: true}} {
		runtime.GC()
		g0, r0 := runtime.NumGoroutine(), rss()
		n := 3000
		for i := 0; i < n; i++ {
			sc := SeqScenario{Harness: "leak", Cfg: cfg, Ops: []wire.Op{{Kind: "set", Key: "a", Val: "x"}, {Kind: "get", Key: "a"}}}
			InBubble(t, func() { RunSeq(sc, SeqOpts{}) })
		}
		runtime.GC()
		if f, err := os.Create(fmt.Sprintf("/tmp/leakt/heap-%s-%v.pprof", cfg.L1H, cfg.App)); err == nil {
			pprof.WriteHeapProfile(f)
			f.Close()
		}
		fmt.Printf("%s: goroutines +%.2f/exec, rss +%.1f KB/exec\n", cfg, float64(runtime.NumGoroutine()-g0)/float64(n), float64(rss()-r0)/float64(n))
	}
}
