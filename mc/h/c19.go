package h

import (
	"crypto/md5"
	"encoding/binary"
	"fmt"
	"net"
	"sort"
	"testing/synctest"

	"github.com/netflix/rend/handlers/memcached/cluster"
	"github.com/netflix/rend/verifshim/vnet"
	"github.com/netflix/rend/verifshim/vsync"

	"verif/fakemc"
	"verif/rt"
	"verif/sched"
	"verif/wire"
)

func init() {
	rt.Register("C19", rt.Harness{Run: runC19})
}

type kbucket struct{ label string }

func (b kbucket) Label() string  { return b.label }
func (b kbucket) Weight() uint32 { return 1 }

func mkRing(labels []string) *cluster.Continuum {
	bs := make([]cluster.Bucket, len(labels))
	for i, l := range labels {
		bs[i] = kbucket{l}
	}
	return cluster.New(bs)
}

// ringPoints recomputes, independently of the implementation, the ring points of a label set
// (ketama: 40 MD5 digests per node, 4 little-endian uint32 points each).
func ringPoints(labels []string) []uint32 {
	var pts []uint32
	for _, l := range labels {
		for k := 0; k < 40; k++ {
			d := md5.Sum([]byte(fmt.Sprintf("%s-%d", l, k)))
			for h := 0; h < 4; h++ {
				pts = append(pts, binary.LittleEndian.Uint32(d[h*4:]))
			}
		}
	}
	return pts
}

func permutations(n int, f func(p []int)) {
	p := make([]int, n)
	for i := range p {
		p[i] = i
	}
	var rec func(k int)
	rec = func(k int) {
		if k == n {
			f(p)
			return
		}
		for i := k; i < n; i++ {
			p[k], p[i] = p[i], p[k]
			rec(k + 1)
			p[k], p[i] = p[i], p[k]
		}
	}
	rec(0)
}

func runC19(c *rt.Ctx) {
	maxN := 32
	maxPerm := 5
	nkeys := 4000
	if c.Thorough() {
		maxN, maxPerm, nkeys = 32, 6, 20000
	}
	addr := func(i int) string { return fmt.Sprintf("10.%d.%d.%d:11211", i/7, i%7, (i*37)%251) }
	keys := make([][]byte, nkeys)
	for i := range keys {
		keys[i] = []byte(fmt.Sprintf("key:%d:%x", i, i*2654435761))
	}
	item := 0
	for n := 1; n <= maxN; n++ {
		item++
		if !c.Mine(item) {
			continue
		}
		labels := make([]string, n)
		for i := range labels {
			labels[i] = addr(i + n)
		}
		base := mkRing(labels)
		// every equivalence class of the 2^32 hash space: Bucket() is piecewise constant between
		// ring points, so 0, max and p-1, p, p+1 for every ring point cover all classes
		probes := []uint32{0, 1, 0xffffffff, 0xfffffffe, 0x7fffffff, 0x80000000}
		for _, p := range ringPoints(labels) {
			probes = append(probes, p-1, p, p+1)
		}
		owner := func(r *cluster.Continuum, h uint32) string {
			b := r.Bucket(h)
			if b == nil {
				return "<nil>"
			}
			return b.Label()
		}
		ownerKey := func(r *cluster.Continuum, k []byte) string {
			b := r.Hash(k)
			if b == nil {
				return "<nil>"
			}
			return b.Label()
		}
		// reference owner: first ring point >= h (wrap to the smallest); on equal points any of
		// the nodes sharing the point is acceptable
		type pt struct {
			p uint32
			l string
		}
		var ref []pt
		for _, l := range labels {
			for _, p := range ringPoints([]string{l}) {
				ref = append(ref, pt{p, l})
			}
		}
		sort.Slice(ref, func(i, j int) bool { return ref[i].p < ref[j].p })
		refOwners := func(h uint32) map[string]bool {
			i := sort.Search(len(ref), func(i int) bool { return ref[i].p >= h })
			if i == len(ref) {
				i = 0
			}
			out := map[string]bool{}
			for j := i; j < len(ref) && ref[j].p == ref[i].p; j++ {
				out[ref[j].l] = true
			}
			return out
		}
		check := func(perm []string, what string) {
			r := mkRing(perm)
			c.Eval(1)
			c.Distinct(fmt.Sprint(perm))
			if n > 1 {
				c.Nontrivial(fmt.Sprint(perm))
			}
			for _, h := range probes {
				if a, b := owner(base, h), owner(r, h); a != b {
					c.Violation("C19 order-dependence", fmt.Sprintf("hash %#x is owned by %s with nodes listed as %v but by %s listed as %v", h, a, labels, b, perm), map[string]interface{}{"labels": labels, "perm": perm, "hash": h})
					return
				}
			}
			for _, k := range keys[:nkeys/10] {
				if a, b := ownerKey(base, k), ownerKey(r, k); a != b {
					c.Violation("C19 order-dependence", fmt.Sprintf("key %q routed to %s / %s depending on listing order (%s)", k, a, b, what), map[string]interface{}{"labels": labels, "perm": perm, "key": string(k)})
					return
				}
			}
		}
		for _, h := range probes {
			if o := owner(base, h); !refOwners(h)[o] {
				c.Violation("C19 ring-lookup", fmt.Sprintf("hash %#x: owner %s is not the node of the first ring point at or after it", h, o), map[string]interface{}{"labels": labels, "hash": h})
				break
			}
		}
		c.Trans(int64(len(probes)))
		if n <= maxPerm {
			permutations(n, func(p []int) {
				perm := make([]string, n)
				for i, j := range p {
					perm[i] = labels[j]
				}
				check(perm, "permutation")
			})
		} else {
			rev := make([]string, n)
			for i := range labels {
				rev[n-1-i] = labels[i]
			}
			check(rev, "reversed")
			srt := append([]string{}, labels...)
			sort.Strings(srt)
			check(srt, "sorted")
			for rot := 1; rot < n; rot++ {
				check(append(append([]string{}, labels[rot:]...), labels[:rot]...), "rotation")
			}
		}
		// same key, same node: routing is a function (two lookups agree), every node gets a share
		share := map[string]int{}
		for _, k := range keys {
			a := ownerKey(base, k)
			if b := ownerKey(base, k); a != b {
				c.Violation("C19 not-a-function", fmt.Sprintf("key %q routed to %s then %s", k, a, b), nil)
			}
			share[a]++
		}
		for _, l := range labels {
			if share[l] == 0 {
				c.Violation("C19 empty-share", fmt.Sprintf("node %s of %d received none of %d keys", l, n, nkeys), map[string]interface{}{"labels": labels})
			}
		}
		// single-node removal moves only the removed node's keys
		for x := 0; x < n && n > 1; x++ {
			rest := append(append([]string{}, labels[:x]...), labels[x+1:]...)
			r := mkRing(rest)
			c.Eval(1)
			moved := 0
			for _, k := range keys {
				a := ownerKey(base, k)
				if a == labels[x] {
					continue
				}
				if b := ownerKey(r, k); a != b {
					moved++
					c.Violation("C19 removal-moves-foreign-key", fmt.Sprintf("removing %s re-routed key %q from %s to %s", labels[x], k, a, b), map[string]interface{}{"labels": labels, "removed": labels[x], "key": string(k)})
					break
				}
			}
			for _, h := range probes {
				a := owner(base, h)
				if a == labels[x] {
					continue
				}
				if b := owner(r, h); a != b {
					c.Violation("C19 removal-moves-foreign-key", fmt.Sprintf("removing %s re-routed hash %#x from %s to %s", labels[x], h, a, b), map[string]interface{}{"labels": labels, "removed": labels[x], "hash": h})
					break
				}
			}
		}
		// a label listed twice (consul returning an instance twice, a hostname repeated on the command
		// line) names the same set of nodes
		if n >= 2 && n <= 8 {
			for _, dup := range []int{0, n - 1} {
				withDup := append(append([]string{}, labels...), labels[dup])
				rd := mkRing(withDup)
				for _, h := range probes {
					c.Eval(1)
					if a, b := owner(base, h), owner(rd, h); a != b {
						c.Violation("C19 depends-on-repetition", fmt.Sprintf("hash %#x is owned by %s with nodes %v but by %s when %s is listed twice", h, a, labels, b, labels[dup]), map[string]interface{}{"labels": labels, "dup": labels[dup]})
						break
					}
				}
			}
		}
		if n <= 3 {
			c.Sample(map[string]interface{}{"nodes": labels, "ring_points": len(ringPoints(labels)), "probe_hashes": len(probes), "key_share": share})
		}
	}
	// the cluster handler itself (one per client connection, each dialling the node list afresh):
	// a set through one connection's handler and a get through another's must reach the same node,
	// whatever order the nodes are listed in
	if c.Mine(0) {
		clusterHandlerRouting(c, nkeys/10)
	}
	if c.Mine(1) {
		clusterProxyRouting(c, nkeys/20)
	}
	c.Set("max_nodes", maxN)
	c.Set("all_permutations_up_to", maxPerm)
	c.Set("key_sample", nkeys)
}

// clusterHandlerRouting drives cluster.NewHandler over in-memory connections (net.Dial rewritten by
// the overlay): every node has its own fake backend; every dial gets a fresh ephemeral local
// address, as a real TCP connection does.
func clusterHandlerRouting(c *rt.Ctx, nkeys int) {
	port := 40000
	for n := 2; n <= 5; n++ {
		stores := map[string]*fakemc.Store{}
		var addrs []string
		for i := 0; i < n; i++ {
			a := fmt.Sprintf("10.1.%d.%d:11211", n, i+1)
			addrs = append(addrs, a)
			stores[a] = fakemc.NewStore(a)
		}
		vnet.DialHook = func(network, address string) (net.Conn, error) {
			st, ok := stores[address]
			if !ok {
				return nil, fmt.Errorf("no such node %s", address)
			}
			port++
			conn := fakemc.NewConn(st, address)
			conn.Local = fmt.Sprintf("10.0.0.9:%d", port)
			return conn, nil
		}
		hA, err := cluster.NewHandler(addrs, "verif")
		if err != nil {
			c.Violation("C19 cluster-handler-dial", err.Error(), nil)
			continue
		}
		rev := make([]string, n)
		for i := range addrs {
			rev[n-1-i] = addrs[i]
		}
		hB, _ := cluster.NewHandler(rev, "verif")
		hC, _ := cluster.NewHandler(append(append([]string{}, addrs[1:]...), addrs[0]), "verif")
		// a node that is unreachable at the moment a client connection is set up: that connection may
		// be refused, but it must not be given a ring of its own (keys of the missing node would go
		// elsewhere for this connection only, for as long as it lives)
		for down := 0; down < n && down < 3; down++ {
			refused := false
			inner := vnet.DialHook
			vnet.DialHook = func(network, address string) (net.Conn, error) {
				if address == addrs[down] && !refused {
					refused = true
					return nil, fmt.Errorf("dial tcp %s: connect: connection refused", address)
				}
				return inner(network, address)
			}
			hD, err := cluster.NewHandler(addrs, "verif")
			vnet.DialHook = inner
			c.Eval(1)
			if err != nil {
				continue // refusing the connection is fine
			}
			for i := 0; i < nkeys; i++ {
				k := fmt.Sprintf("ck:%d:%x", i, i*40503)
				if a, b := hA.Continuum.Hash([]byte(k)).Label(), hD.Continuum.Hash([]byte(k)).Label(); a != b {
					c.Violation("C19 connection-dependent-routing-after-dial-failure", fmt.Sprintf("%d nodes: a connection set up while node %s refused its dial routes key %q to %s, every other connection to %s", n, addrs[down], k, b, a),
						map[string]interface{}{"labels": addrs, "down": addrs[down], "key": k})
					break
				}
			}
		}
		vnet.DialHook = nil
		moved := 0
		for i := 0; i < nkeys; i++ {
			k := fmt.Sprintf("ck:%d:%x", i, i*40503)
			v := fmt.Sprintf("v%d", i)
			if r := CallHandler(hA, wire.Op{Kind: "set", Key: k, Val: v}); r.Class != "ok" {
				c.Violation("C19 cluster-handler-set", fmt.Sprintf("set %q: %s", k, r), nil)
				break
			}
			for hi, h := range []cluster.Handler{hA, hB, hC} {
				r := CallHandler(h, wire.Op{Kind: "get", Key: k})
				c.Eval(1)
				if len(r.Hits) != 1 || r.Hits[0].Val != v {
					moved++
					if moved == 1 {
						c.Violation("C19 connection-dependent-routing", fmt.Sprintf("%d nodes: key %q set through one connection's handler is not found through connection %d's handler (%s): the two route it to different nodes", n, k, hi, r),
							map[string]interface{}{"labels": addrs, "key": k})
					}
				}
			}
		}
		// pairs of different keys that common 32-bit hashes cannot tell apart (FNV-1a, FNV-1, CRC-32),
		// used back to back on one connection: whatever a handler remembers about the key it routed
		// last must not decide where the next one goes
		for _, pair := range [][2]string{{"costarring", "liquid"}, {"declinate", "macallums"}, {"altarage", "zinke"}, {"plumless", "buckeroo"}, {"liquid", "costarring"}} {
			for hi, h := range []cluster.Handler{hA, hB, hC} {
				for _, k := range pair {
					if r := CallHandler(h, wire.Op{Kind: "set", Key: k, Val: "v-" + k}); r.Class != "ok" {
						c.Violation("C19 cluster-handler-set", fmt.Sprintf("set %q: %s", k, r), nil)
					}
				}
				for _, h2 := range []cluster.Handler{hC, hA, hB} {
					for _, k := range []string{pair[1], pair[0]} {
						r := CallHandler(h2, wire.Op{Kind: "get", Key: k})
						c.Eval(1)
						var on []string
						for a, st := range stores {
							if it := st.Lookup(k); it != nil {
								on = append(on, a)
							}
						}
						want := mkRing(addrs).Hash([]byte(k)).Label()
						if len(r.Hits) != 1 || r.Hits[0].Val != "v-"+k || len(on) != 1 || on[0] != want {
							if moved == 0 {
								c.Violation("C19 routing-depends-on-previous-key", fmt.Sprintf("%d nodes: keys %q and %q used back to back on connection %d: get %q returned %s; the key is stored on %v, the ring names %s", n, pair[0], pair[1], hi, k, r, on, want),
									map[string]interface{}{"labels": addrs, "pair": pair})
							}
							moved++
						}
					}
				}
			}
		}
		// the entry lives on exactly one node, the one the handler's ring names
		for i := 0; i < nkeys && moved == 0; i++ {
			k := fmt.Sprintf("ck:%d:%x", i, i*40503)
			var on []string
			for a, st := range stores {
				if st.Lookup(k) != nil {
					on = append(on, a)
				}
			}
			want := hA.Continuum.Hash([]byte(k)).Label()
			if len(on) != 1 || on[0] != want {
				c.Violation("C19 cluster-handler-placement", fmt.Sprintf("%d nodes: key %q is stored on %v, the ring names %s", n, k, on, want), map[string]interface{}{"labels": addrs, "key": k})
				break
			}
		}
		// multi-key gets: where a key is looked up must not depend on its neighbours in the request
		// or on whether they hit (present keys around a key that was never stored, duplicates)
		bad := 0
		for i := 1; i < nkeys && moved == 0 && bad == 0; i++ {
			ki, kp := fmt.Sprintf("ck:%d:%x", i, i*40503), fmt.Sprintf("ck:%d:%x", i-1, (i-1)*40503)
			vi, vp := fmt.Sprintf("v%d", i), fmt.Sprintf("v%d", i-1)
			mi := fmt.Sprintf("never:%d:%x", i, i*7919)
			val := map[string]string{ki: vi, kp: vp}
			for _, req := range [][]string{{ki, mi, ki}, {mi, ki, kp}, {kp, mi, ki, kp}, {ki, kp, mi, mi, ki}} {
				for hi, h := range []cluster.Handler{hA, hB, hC} {
					r := CallHandler(h, wire.Op{Kind: "mget", Keys: req})
					c.Eval(1)
					wantHits, wantMiss := 0, 0
					for _, k := range req {
						if _, ok := val[k]; ok {
							wantHits++
						} else {
							wantMiss++
						}
					}
					ok := r.Class == "values" && len(r.Hits) == wantHits && r.Misses == wantMiss
					for _, hit := range r.Hits {
						if hit.Idx < 0 || hit.Idx >= len(req) || val[req[hit.Idx]] != hit.Val {
							ok = false
						}
					}
					if !ok && bad == 0 {
						bad++
						c.Violation("C19 neighbour-dependent-routing", fmt.Sprintf("%d nodes, connection %d: get of %q returned %s; every key but the never-stored one must hit with its own value: a key was looked up on a node chosen by its neighbours in the request", n, hi, req, r),
							map[string]interface{}{"labels": addrs, "keys": req})
					}
				}
			}
		}
		c.Distinct(fmt.Sprintf("cluster-handler|%d", n))
		c.Nontrivial(fmt.Sprintf("cluster-handler|%d", n))
	}
}

// clusterProxyRouting runs rend's cluster-proxy main program itself (app/memcached_cluster_proxy.go,
// copied unedited into an importable package by the overlay) twice, with the node list in two
// different orders, and talks to both through their real accept loops: a set through one client
// connection must be found by a get through another connection of the same proxy and through a
// connection of the other proxy, and must live on exactly the node the ring names.
func clusterProxyRouting(c *rt.Ctx, nkeys int) {
	leaked, other := sched.Bubble(c.T, func() {
		port := 50000
		for _, n := range []int{1, 2, 3, 5, 8} {
			stores := map[string]*fakemc.Store{}
			var addrs []string
			for i := 0; i < n; i++ {
				a := fmt.Sprintf("10.2.%d.%d:11211", n, i+1)
				addrs = append(addrs, a)
				stores[a] = fakemc.NewStore(a)
			}
			dial := func(network, address string) (net.Conn, error) {
				st, ok := stores[address]
				if !ok || network != "tcp" {
					return nil, fmt.Errorf("no such node %s %s", network, address)
				}
				port++
				conn := fakemc.NewConn(st, address)
				conn.Async = true
				conn.Local = fmt.Sprintf("10.0.0.9:%d", port)
				return conn, nil
			}
			perm := append(append([]string{}, addrs[n/2:]...), addrs[:n/2]...)
			stop := make(chan struct{})
			p1, prob1 := startClusterProxy(stop, addrs, dial)
			p2, prob2 := startClusterProxy(stop, perm, dial)
			if prob1+prob2 != "" {
				c.Violation("C19 cluster-proxy-start", prob1+" "+prob2, map[string]interface{}{"labels": addrs})
				close(stop)
				continue
			}
			connect := func(l *appListener) *Client {
				cli := NewClient()
				l.ch <- cli
				synctest.Wait()
				return cli
			}
			a, b, x := connect(p1), connect(p1), connect(p2)
			vnet.DialHook = dial
			ref, err := cluster.NewHandler(addrs, "ref")
			if err != nil {
				panic(err)
			}
			do := func(cli *Client, op wire.Op) wire.Reply {
				from := len(cli.Out)
				cli.Feed(wire.Encode("binary", op))
				synctest.Wait()
				reps, _, _ := wire.DecodeBinary(cli.Out[from:], []wire.Op{op})
				return reps[0]
			}
			bad := false
			for i := 0; i < nkeys && !bad; i++ {
				k := fmt.Sprintf("pk:%d:%x", i, i*40503)
				v := fmt.Sprintf("v%d", i)
				if r := do(a, wire.Op{Kind: "set", Key: k, Val: v, Flags: uint32(i), Opaque: uint32(16 * i)}); r.Class != "ok" {
					c.Violation("C19 cluster-proxy-set", fmt.Sprintf("%d nodes: set %q through the proxy: %s", n, k, r.Canon()), map[string]interface{}{"labels": addrs, "key": k})
					break
				}
				for ci, cli := range []*Client{a, b, x} {
					r := do(cli, wire.Op{Kind: "get", Key: k, Opaque: uint32(16*i + 1 + ci)})
					c.Eval(1)
					if len(r.Hits) != 1 || r.Hits[0].Val != v || r.Hits[0].Flags != uint32(i) {
						which := []string{"the connection that set it", "another connection of the same proxy", "a proxy started with the nodes listed in another order"}[ci]
						c.Violation("C19 proxy-connection-dependent-routing", fmt.Sprintf("%d nodes: key %q set through the cluster proxy is not found through %s: %s", n, k, which, r.Canon()),
							map[string]interface{}{"labels": addrs, "other_order": perm, "key": k})
						bad = true
						break
					}
				}
				var on []string
				for ad, st := range stores {
					if st.Lookup(k) != nil {
						on = append(on, ad)
					}
				}
				if want := ref.Continuum.Hash([]byte(k)).Label(); !bad && (len(on) != 1 || on[0] != want) {
					c.Violation("C19 cluster-proxy-placement", fmt.Sprintf("%d nodes: key %q set through the cluster proxy is stored on %v, the ring names %s", n, k, on, want), map[string]interface{}{"labels": addrs, "key": k})
					bad = true
				}
			}
			for _, cli := range []*Client{a, b, x} {
				cli.End()
			}
			synctest.Wait()
			close(stop)
			vnet.ListenHook, vnet.DialHook, vsync.WaitHook = nil, nil, nil
			c.Distinct(fmt.Sprintf("cluster-proxy|%d", n))
			c.Nontrivial(fmt.Sprintf("cluster-proxy|%d", n))
		}
	})
	_ = leaked
	if other != nil {
		panic(other)
	}
}
