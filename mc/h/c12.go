package h

import (
	"errors"
	"fmt"
	"github.com/netflix/rend/orcas"
	"github.com/netflix/rend/verifshim/vsync"
	"io"
	"strings"
	"sync"

	"github.com/netflix/rend/common"
	"github.com/netflix/rend/handlers"

	"verif/rt"
	"verif/sched"
	"verif/wire"
)

func init() {
	rt.Register("C12", rt.Harness{Run: runC12, Replay: replayConc})
}

// HandlerFault makes the j-th call on a tier's handler misbehave on the caller's goroutine.
type HandlerFault struct {
	Tier int    `json:"tier"`
	Call int    `json:"call"`
	Mode string `json:"mode"` // panic[-eof|-error|-runtime]-before|-after | error-before | error-after
}

type faultyHandler struct {
	inner handlers.Handler
	f     *HandlerFault
	n     *int
	hit   *bool
}

func (h faultyHandler) trip() (before, after func() error) {
	idx := *h.n
	*h.n++
	if h.f == nil || idx != h.f.Call {
		return func() error { return nil }, func() error { return nil }
	}
	*h.hit = true
	boom := func() error {
		switch {
		case strings.HasPrefix(h.f.Mode, "panic-eof"):
			panic(io.EOF) // what a layer doing panic(err) on a lost backend connection raises
		case strings.HasPrefix(h.f.Mode, "panic-error"):
			panic(errors.New("injected error-valued panic below the locking wrapper"))
		case strings.HasPrefix(h.f.Mode, "panic-runtime"):
			var m map[string]int
			m["x"] = 1 // a genuine runtime error
		}
		panic("injected panic below the locking wrapper")
	}
	nop := func() error { return nil }
	switch {
	case strings.HasPrefix(h.f.Mode, "panic") && strings.HasSuffix(h.f.Mode, "before"):
		return boom, nop
	case strings.HasPrefix(h.f.Mode, "panic"):
		return nop, boom
	case h.f.Mode == "error-before":
		return func() error { return io.ErrUnexpectedEOF }, nop
	default:
		return nop, func() error { return io.ErrUnexpectedEOF }
	}
}

func (h faultyHandler) simple(call func() error) error {
	b, a := h.trip()
	if err := b(); err != nil {
		return err
	}
	err := call()
	if e2 := a(); e2 != nil {
		return e2
	}
	return err
}

func (h faultyHandler) Set(c common.SetRequest) error {
	return h.simple(func() error { return h.inner.Set(c) })
}
func (h faultyHandler) Add(c common.SetRequest) error {
	return h.simple(func() error { return h.inner.Add(c) })
}
func (h faultyHandler) Replace(c common.SetRequest) error {
	return h.simple(func() error { return h.inner.Replace(c) })
}
func (h faultyHandler) Append(c common.SetRequest) error {
	return h.simple(func() error { return h.inner.Append(c) })
}
func (h faultyHandler) Prepend(c common.SetRequest) error {
	return h.simple(func() error { return h.inner.Prepend(c) })
}
func (h faultyHandler) Delete(c common.DeleteRequest) error {
	return h.simple(func() error { return h.inner.Delete(c) })
}
func (h faultyHandler) Touch(c common.TouchRequest) error {
	return h.simple(func() error { return h.inner.Touch(c) })
}
func (h faultyHandler) Close() error { return h.inner.Close() }

func errChans() (<-chan common.GetResponse, <-chan error) {
	d := make(chan common.GetResponse)
	e := make(chan error, 1)
	e <- io.ErrUnexpectedEOF
	close(d)
	close(e)
	return d, e
}

func (h faultyHandler) Get(c common.GetRequest) (<-chan common.GetResponse, <-chan error) {
	b, a := h.trip()
	if err := b(); err != nil {
		return errChans()
	}
	d, e := h.inner.Get(c)
	if err := a(); err != nil {
		// drain the real handler so its goroutine ends, then report the error
		for d != nil || e != nil {
			select {
			case _, ok := <-d:
				if !ok {
					d = nil
				}
			case _, ok := <-e:
				if !ok {
					e = nil
				}
			}
		}
		return errChans()
	}
	return d, e
}

func (h faultyHandler) GetE(c common.GetRequest) (<-chan common.GetEResponse, <-chan error) {
	b, a := h.trip()
	bad := func() (<-chan common.GetEResponse, <-chan error) {
		d := make(chan common.GetEResponse)
		e := make(chan error, 1)
		e <- io.ErrUnexpectedEOF
		close(d)
		close(e)
		return d, e
	}
	if err := b(); err != nil {
		return bad()
	}
	d, e := h.inner.GetE(c)
	if err := a(); err != nil {
		for d != nil || e != nil {
			select {
			case _, ok := <-d:
				if !ok {
					d = nil
				}
			case _, ok := <-e:
				if !ok {
					e = nil
				}
			}
		}
		return bad()
	}
	return d, e
}

func (h faultyHandler) GAT(c common.GATRequest) (common.GetResponse, error) {
	b, a := h.trip()
	if err := b(); err != nil {
		return common.GetResponse{}, err
	}
	r, err := h.inner.GAT(c)
	if e2 := a(); e2 != nil {
		return common.GetResponse{}, e2
	}
	return r, err
}

// RunLockFault: T0 issues one command whose handler call j misbehaves; T1 then (or concurrently)
// issues a follow-up command on the same key from another connection. Explored under the
// scheduler so that a leaked lock shows up as T1 never being enabled (deadlock).
func RunLockFault(cfg Cfg, init []wire.Op, cmd, follow wire.Op, f *HandlerFault, prefix []int) (*ConcResult, bool, bool) {
	sc := ConcScenario{Harness: "C12", Cfg: cfg, Init: init, Threads: []ConcThread{{Port: cmd.Port, Ops: []wire.Op{cmd}}, {Port: follow.Port, Ops: []wire.Op{follow}}}}
	return runConcWithFault(sc, f, prefix)
}

func runC12(c *rt.Ctx) {
	// sync.Pool may drop what it holds at any garbage collection: here it always does (every Get
	// builds a new object), so nothing the wrapper computes may depend on which pooled object
	// happens to come back
	vsync.DropPuts = true
	item := 0
	// the panic value varies too: a string, the io.EOF sentinel, an error value, a runtime error
	modes := []string{"panic-before", "panic-after", "error-before", "error-after", "panic-eof-before", "panic-eof-after", "panic-error-after", "panic-runtime-before"}
	for _, lock := range []string{"single", "multi"} {
		for _, proto := range []string{"binary", "text"} {
			for _, orca := range []string{"l1l2b", "l1only"} {
				cfg := Cfg{Orca: orca, Lock: lock, Proto: proto, L1H: "std", Conc: 0}
				cmds := concOps(proto == "binary", "a", "b", "0")
				if proto == "binary" {
					// get-with-expiry: served by L1-only, answered "unknown command" by L1/L2 - an
					// error return (not a panic) from underneath the wrapper either way
					cmds = append(cmds, wire.Op{Kind: "gete", Key: "a"})
				}
				for _, ni := range initStates("a") {
					iname, init := ni.Name, ni.Ops
					if orca == "l1only" && iname == "l2only" {
						continue
					}
					for _, port := range cfg.Ports() {
						for _, cmd := range cmds {
							item++
							if !c.Mine(item) {
								continue
							}
							if c.Expired() {
								return
							}
							cmd.Port = port
							follows := []wire.Op{{Kind: "set", Key: "a", Val: "after", Flags: 4, Port: 0}}
							if item%2 == 0 {
								follows = []wire.Op{{Kind: "get", Key: "a", Port: len(cfg.Ports()) - 1}}
							}
							if c.Thorough() {
								// both kinds of follow-up, from both ports
								follows = []wire.Op{{Kind: "set", Key: "a", Val: "after", Flags: 4, Port: 0}, {Kind: "get", Key: "a", Port: len(cfg.Ports()) - 1},
									{Kind: "delete", Key: "a", Port: len(cfg.Ports()) - 1}, {Kind: "mget", Keys: []string{"b", "a"}, Quiet: []bool{proto == "binary", false}, Port: 0}}
							}
							for _, follow := range follows {
								// count handler calls per tier in a fault-free run, then enumerate
								for tier := 1; tier <= 2; tier++ {
									if orca == "l1only" && tier == 2 {
										continue
									}
									maxCall := 4
									if c.Thorough() {
										maxCall = 7
									}
									for call := 0; call < maxCall; call++ {
										anyHit := false
										for _, mode := range modes {
											f := &HandlerFault{Tier: tier, Call: call, Mode: mode}
											sc := ConcScenario{Harness: "C12", Cfg: cfg, Init: init, Threads: []ConcThread{{Port: port, Ops: []wire.Op{cmd}}, {Port: follow.Port, Ops: []wire.Op{follow}}}}
											hit := exploreLockFault(c, sc, f)
											anyHit = anyHit || hit
										}
										if !anyHit {
											break // the command makes fewer calls on this tier
										}
									}
								}
							}
						}
					}
				}
			}
		}
	}
	// many keys: whatever the wrapper does with a key (stripe choice, anything sampled by key
	// content) must leave every stripe free once the command is answered. One connection, two commands
	// on each of several thousand keys, the whole lock set probed after every command.
	for _, lock := range []string{"single", "multi"} {
		item++
		if !c.Mine(item) || c.Expired() {
			continue
		}
		nkeys := 3000
		if c.Thorough() {
			nkeys = 40000
		}
		cfg := Cfg{Orca: "l1l2b", Lock: lock, Proto: "binary", L1H: "std", Conc: 4}
		InBubble(c.T, func() {
			w := NewWorld(cfg)
			defer w.Release()
			sess := []*Session{w.Connect(0), w.Connect(1)}
			ws, rs := orcas.VerifLockSet(w.LockSlot())
			held := func() string {
				for i := range ws {
					for _, l := range []sync.Locker{ws[i], rs[i]} {
						if p, _ := probeFor(l, ws[i]); !p() {
							return fmt.Sprintf("stripe %d", i)
						}
					}
				}
				return ""
			}
			for i := 0; i < nkeys; i++ {
				k := fmt.Sprintf("key%d", i)
				if i%3 == 1 {
					k = fmt.Sprintf("user:%d:profile", i)
				}
				s := sess[i%2]
				for _, op := range []wire.Op{{Kind: "set", Key: k, Val: "v", Flags: 1}, {Kind: "get", Key: k}} {
					op.Opaque = uint32(16 * len(s.Ops))
					s.Do(op)
					c.Eval(1)
					if h := held(); h != "" || s.Ended {
						c.Violation(fmt.Sprintf("C12 lock-leaked op=%s mode=many-keys cfg=%s", op.Kind, cfgClass(cfg)), fmt.Sprintf("after %s on key %q was answered, %s of the lock set is still locked (connection ended: %v)", op.Kind, k, h, s.Ended),
							map[string]interface{}{"cfg": cfg, "key": k, "op": op.Kind})
						return
					}
				}
			}
			for _, s := range sess {
				s.Hangup()
			}
		})
		c.Distinct("many-keys|" + lock)
		c.Nontrivial("many-keys|" + lock)
	}
	// commands the deployed backend does not support: with the chunked L1 (memproxy --chunked --locked)
	// get-with-expiry ends in a panic below the wrapper, with L2 enabled in an error return; either
	// way the key's lock must be free for the other connection and the connection must not be left
	// waiting with the lock held
	for _, orca := range []string{"l1only", "l1l2b"} {
		cfg := Cfg{Orca: orca, Lock: "single", Proto: "binary", L1H: "chunked", Conc: 0}
		for _, first := range []wire.Op{{Kind: "gete", Key: "a"}, {Kind: "gete", Key: "nope"}} {
			for _, follow := range []wire.Op{{Kind: "set", Key: "a", Val: "after", Flags: 4}, {Kind: "get", Key: "a"}} {
				item++
				if !c.Mine(item) || c.Expired() {
					continue
				}
				sc := ConcScenario{Harness: "C12", Cfg: cfg, Init: initStates("a")[2].Ops, Threads: []ConcThread{{Port: 0, Ops: []wire.Op{first}}, {Port: len(cfg.Ports()) - 1, Ops: []wire.Op{follow}}}}
				ex := &sched.Explorer{Bound: -1, MaxExecs: 20000, Expired: c.Expired}
				ex.Explore(func(prefix []int) *sched.Sched {
					var r *ConcResult
					sched.Bubble(c.T, func() { r = RunConc(sc, prefix) })
					c.Eval(1)
					c.Trace(1)
					c.Trans(int64(len(r.S.Trace)))
					for _, fd := range r.Findings {
						switch fd.Clause {
						case "deadlock", "lock-leaked", "multiple-locks-held", "lock-model-conformance", "panic-escaped":
							scc := sc
							scc.Choices = r.S.Choices()
							cl := fd.Clause
							if cl == "deadlock" {
								cl = "lock-never-released"
							}
							c.Violation(fmt.Sprintf("C12 %s op=%s mode=unsupported-command cfg=%s", cl, opTag(first), cfgClass(cfg)), fd.What+"\nschedule: "+r.S.Describe(), scc)
						}
					}
					for _, ho := range r.Hist {
						if ho.Thread == 1 && ho.Reply.Class == "none" && !r.S.Deadlock {
							scc := sc
							scc.Choices = r.S.Choices()
							c.Violation(fmt.Sprintf("C12 followup-unanswered op=%s mode=unsupported-command cfg=%s", opTag(first), cfgClass(cfg)), "the follow-up command received no reply", scc)
						}
					}
					return r.S
				}, func(s *sched.Sched) bool { return true })
				c.Distinct("unsupported|" + orca + "|" + opTag(first) + "|" + follow.Kind)
				c.Nontrivial("unsupported|" + orca + "|" + opTag(first) + "|" + follow.Kind)
			}
		}
	}
	// contention while time passes: every pair of commands on one key from two connections and a
	// later reader, with "let a second of (virtual) time pass" as an explorer event at every decision
	// at which the code under test has a timer armed (none is, on the present tree: the alternatives
	// only exist once waiting for a lock - or anything else on this path - becomes bounded in time)
	for _, lock := range []string{"single", "multi"} {
		cfg := Cfg{Orca: "l1l2b", Lock: lock, Proto: "binary", L1H: "std", Conc: 0}
		ops0 := concOps(true, "a", "b", "0")
		ops1 := concOps(true, "a", "b", "1")
		for i0, o0 := range ops0 {
			for i1, o1 := range ops1 {
				if !c.Thorough() && (i0+i1)%2 == 1 {
					continue
				}
				item++
				if !c.Mine(item) {
					continue
				}
				if c.Expired() {
					return
				}
				sc := ConcScenario{Harness: "C12", Cfg: cfg, Init: initStates("a")[2].Ops, Advances: 2, Threads: []ConcThread{
					{Port: 0, Ops: []wire.Op{o0}}, {Port: 1, Ops: []wire.Op{o1}}, {Port: 0, Ops: []wire.Op{{Kind: "get", Key: "a"}}}}}
				_, outs, complete := ExploreConc(c, sc, 2, 100000)
				if !complete {
					c.Cap("schedule cap for a contention-with-time program")
				}
				c.State(int64(len(outs)))
				c.Distinct("time|" + lock + "|" + progTag(sc))
			}
		}
	}
	// a value beyond memcached's default item limit, then another command on the same connection,
	// next to a second connection on the same stripe: whatever is done about the size, the stripe
	// is free afterwards and everybody is answered
	for _, cfg := range []Cfg{{Orca: "l1l2b", Lock: "multi", Proto: "binary", L1H: "std", Conc: 0}, {Orca: "l1only", Lock: "single", Proto: "text", L1H: "std", Conc: 0}} {
		for _, kind := range []string{"set", "append"} {
			item++
			if !c.Mine(item) || c.Expired() {
				continue
			}
			bv := wire.GenValue(1048577, 9)
			for i := range bv {
				bv[i] = 'a' + bv[i]%26 // (printable: scenarios travel as JSON)
			}
			big := wire.Op{Kind: kind, Key: "a", Val: string(bv), Flags: 5}
			sc := ConcScenario{Harness: "C12", Cfg: cfg, Init: initStates("a")[2].Ops, Threads: []ConcThread{
				{Port: 0, Ops: []wire.Op{big, {Kind: "get", Key: "a"}}}, {Port: 0, Ops: []wire.Op{{Kind: "set", Key: "b", Val: "vb"}, {Kind: "get", Key: "a"}}}}}
			_, outs, complete := ExploreConc(c, sc, 1, 20000)
			if !complete {
				c.Cap("schedule cap for the big-value program")
			}
			c.State(int64(len(outs)))
			c.Distinct("bigvalue|" + cfg.String() + "|" + kind)
			c.Nontrivial("bigvalue|" + cfg.String() + "|" + kind)
		}
	}
	// concurrent multi-key gets over overlapping keys in opposite orders, with a writer
	for _, lock := range []string{"single", "multi"} {
		for _, conc := range []uint8{0, 1} {
			item++
			if !c.Mine(item) {
				continue
			}
			cfg := Cfg{Orca: "l1l2b", Lock: lock, Proto: "binary", L1H: "std", Conc: conc}
			k1, k2 := "a", "b"
			for i := 0; stripeOf(k1, 1) == stripeOf(k2, 1); i++ {
				k2 = fmt.Sprintf("b%d", i)
			}
			init := []wire.Op{{Kind: "set", Key: k1, Val: "i1"}, {Kind: "set", Key: k2, Val: "i2"}, {Kind: "evict", Key: k2}}
			sc := ConcScenario{Harness: "C12", Cfg: cfg, Init: init, Threads: []ConcThread{
				{Port: 0, Ops: []wire.Op{{Kind: "mget", Keys: []string{k1, k2, k1}, Quiet: []bool{true, true, false}}}},
				{Port: 1, Ops: []wire.Op{{Kind: "mget", Keys: []string{k2, k1}, Quiet: []bool{true, true}, NoopEnd: true}}},
				{Port: 0, Ops: []wire.Op{{Kind: "set", Key: k1, Val: "w"}}},
			}}
			bound := 2
			if c.Thorough() {
				bound = 3
			}
			n, outs, complete := ExploreConc(c, sc, bound, 300000)
			if !complete {
				c.Cap("schedule cap for the multi-key get program")
			}
			c.State(int64(len(outs)))
			c.Set(fmt.Sprintf("mget_program_%s_%d_schedules", lock, conc), n)
		}
	}
}

// exploreLockFault explores all interleavings of the faulted command and the follow-up.
func exploreLockFault(c *rt.Ctx, sc ConcScenario, f *HandlerFault) (hit bool) {
	ex := &sched.Explorer{Bound: -1, MaxExecs: 20000, Expired: c.Expired}
	key := fmt.Sprintf("%s|%v|%s|%+v", sc.Cfg, opsStrings(sc.Init), progTag(sc), *f)
	ex.Explore(func(prefix []int) *sched.Sched {
		var r *ConcResult
		var h, closed bool
		sched.Bubble(c.T, func() { r, h, closed = runConcWithFault(sc, f, prefix) })
		hit = hit || h
		c.Eval(1)
		c.Trace(1)
		c.Trans(int64(len(r.S.Trace)))
		report := func(clause, what string) {
			scc := sc
			scc.Choices = r.S.Choices()
			c.Violation(fmt.Sprintf("C12 %s op=%s mode=%s cfg=%s", clause, opTag(sc.Threads[0].Ops[0]), f.Mode, cfgClass(sc.Cfg)),
				fmt.Sprintf("%s\nfault=%+v schedule: %s\nlock log: %v", what, *f, r.S.Describe(), r.Mon.Log), map[string]interface{}{"scenario": scc, "fault": f})
		}
		if !h {
			return r.S
		}
		for _, fd := range r.Findings {
			switch fd.Clause {
			case "deadlock":
				report("lock-never-released", "the follow-up command on the same key never proceeds: "+fd.What)
			case "lock-leaked", "multiple-locks-held", "lock-model-conformance", "panic-escaped", "pooled-object-put-twice":
				report(fd.Clause, fd.What)
			}
		}
		if strings.HasPrefix(f.Mode, "panic") && !closed && !r.S.Deadlock {
			report("panic-not-closing-connection", "a panic below the wrapper did not end with the client connection being closed")
		}
		// the follow-up must have been answered
		for _, ho := range r.Hist {
			if ho.Thread == 1 && ho.Reply.Class == "none" && !r.S.Deadlock {
				report("followup-unanswered", "the follow-up command received no reply")
			}
		}
		return r.S
	}, func(s *sched.Sched) bool { return true })
	if hit {
		c.Distinct(key)
		c.Nontrivial(key)
		if ex.Execs > 1 && len(key)%17 == 0 {
			c.Sample(map[string]interface{}{"cfg": sc.Cfg.String(), "threads": sc.Threads, "fault": f, "schedules": ex.Execs})
		}
	}
	return hit
}
