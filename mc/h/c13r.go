package h

import (
	"errors"
	"fmt"
	"net"
	"sync"
	"sync/atomic"
	"time"

	"github.com/netflix/rend/handlers/memcached/batched"
	"github.com/netflix/rend/verifshim/vnet"

	"verif/fakemc"
	"verif/rt"
	"verif/wire"
)

func init() {
	rt.Register("C13R", rt.Harness{Run: runC13Race})
}

// runC13Race: the pool free-running (real goroutine scheduling, real time, 16 OS threads) under
// the race detector while pooled connections are cut between and during batches. A sampler.
func runC13Race(c *rt.Ctx) {
	var mu sync.Mutex
	var pconns []*fakemc.Conn
	store := fakemc.NewStore("B")
	store.Locked = true
	var refuse int32
	vnet.DialHook = func(network, address string) (net.Conn, error) {
		if atomic.AddInt32(&refuse, -1) >= 0 {
			return nil, errors.New("connection refused")
		}
		pc := fakemc.NewConn(store, "pool")
		pc.Async = true
		mu.Lock()
		pconns = append(pconns, pc)
		mu.Unlock()
		return pc, nil
	}
	defer func() { vnet.DialHook = nil }()
	rounds := 0
	for round := 0; round < 3; round++ {
		if !c.Mine(round) {
			continue
		}
		sock := fmt.Sprintf("verif-race-sock-%d-%d", c.Shard, round)
		opts := batched.Opts{BatchSize: uint32(1 + round%3), BatchDelayMicros: 200, ReadBufSize: 512, WriteBufSize: 512, EvaluationIntervalSec: 3600}
		h0 := batched.NewHandler(sock, opts)
		if round%2 == 1 {
			batched.VerifAddConn(sock)
		}
		var wg sync.WaitGroup
		stop := make(chan struct{})
		for g := 0; g < 6; g++ {
			wg.Add(1)
			go func(g int) {
				defer wg.Done()
				h := h0
				if g > 0 {
					h = batched.NewHandler(sock, opts)
				}
				for i := 0; ; i++ {
					select {
					case <-stop:
						return
					default:
					}
					k := fmt.Sprintf("g%d-k%d", g, i%4)
					CallHandler(h, wire.Op{Kind: "set", Key: k, Val: "v", TTL: 0})
					CallHandler(h, wire.Op{Kind: "mget", Keys: []string{k, "nope", k}})
					CallHandler(h, wire.Op{Kind: "delete", Key: "nope"})
				}
			}(g)
		}
		for cut := 0; cut < 20; cut++ {
			time.Sleep(4 * time.Millisecond)
			if cut%5 == 4 {
				atomic.StoreInt32(&refuse, 2)
			}
			mu.Lock()
			for _, pc := range pconns {
				if !pc.IsPeerClosed() {
					pc.Cut()
					break
				}
			}
			mu.Unlock()
		}
		time.Sleep(1200 * time.Millisecond)
		close(stop)
		done := make(chan struct{})
		go func() { wg.Wait(); close(done) }()
		select {
		case <-done:
		case <-time.After(20 * time.Second):
			c.Violation("C13 race-pass-callers-stuck", "callers of the free-running pool did not finish within 20 s after the last cut", nil)
		}
		rounds++
	}
	c.Eval(int64(rounds))
	c.Distinct("pool-race-a")
	c.Distinct("pool-race-b")
	c.Nontrivial("pool-race-a")
	c.Nontrivial("pool-race-b")
	c.Sample("6 callers x (set, 3-key get, delete-miss) loops against the pool while pooled connections are cut 25 times per round, under -race")
}
