package h

import (
	"fmt"
	"strconv"
	"strings"
	"testing/synctest"
	"time"

	"verif/fakemc"
	"verif/refmodel"
	"verif/rt"
	"verif/wire"
)

func init() {
	rt.Register("C09", rt.Harness{Run: runC09, Replay: replaySeq(SeqOpts{ExtraCheck: ttlCheck, Setup: nil})})
}

const bubbleEpoch = 946684800 // synctest bubbles start at 2000-01-01T00:00:00Z

// tierDeadlines returns the expiry recorded by a fake backend for every entry that belongs to a
// client key (std: the entry; chunked: metadata entry and every chunk). The expiry field inside the metadata
// record is internal; its observable consequence (append/prepend re-writing the value with it) is
// what the check catches.
func tierDeadlines(st *fakemc.Store, key string, chunkedTier bool) map[string]uint32 {
	out := map[string]uint32{}
	st.Purge()
	if !chunkedTier {
		if it, ok := st.M[key]; ok {
			out[key] = it.Exp
		}
		return out
	}
	for k, it := range st.M {
		ck, _, ok := ownerOf(k)
		if !ok || ck != key {
			continue
		}
		out[k] = it.Exp
	}
	return out
}

// ttlCheck: after every command every tier that holds the key holds it with the model's deadline.
func ttlCheck(w *World, m *refmodel.Model, i int, op wire.Op, hist []wire.Op) (string, string) {
	// which command last set the key's expiry (part of the violation signature, so that two
	// different ways of losing an expiry are told apart)
	via := "none"
	for _, h := range hist[:len(hist)-1] {
		switch h.Kind {
		case "set", "add", "replace", "touch", "gat":
			via = h.Kind
		}
	}
	if op.Kind != "append" && op.Kind != "prepend" {
		via = ""
	} else {
		via = "/expiry-last-set-by-" + via
	}
	for _, key := range []string{"a"} {
		e, live := m.Live(key)
		tiers := []struct {
			name    string
			st      *fakemc.Store
			chunked bool
			must    bool
		}{
			{"L1", w.L1, w.Cfg.L1H == "chunked", w.Cfg.Orca == "l1only"},
			{"L2", w.L2, false, w.Cfg.Orca != "l1only"},
		}
		for _, t := range tiers {
			if t.name == "L2" && w.Cfg.Orca == "l1only" {
				continue
			}
			dl := tierDeadlines(t.st, key, t.chunked)
			if !live {
				if len(dl) > 0 {
					// an entry the model no longer has: it would be served after its expiry
					readable := !t.chunked
					for k := range dl {
						if strings.HasSuffix(k, "-meta") {
							readable = true
						}
					}
					if readable {
						return clauseName("outlives-expiry", t.name, via), fmt.Sprintf("%s still holds %q (%v) although the key is gone in the reference map", t.name, key, dl)
					}
				}
				continue
			}
			if len(dl) == 0 {
				if t.must {
					return clauseName("lost-before-expiry", t.name, via), fmt.Sprintf("%s does not hold %q although it must (deadline %d)", t.name, key, e.Deadline)
				}
				continue
			}
			for k, d := range dl {
				if t.chunked {
					// orphan chunks beyond the current value are unreachable; only entries the
					// metadata names matter
					if _, role, _ := ownerOf(strings.TrimSuffix(k, ".field")); role != "meta" {
						idx, _ := strconv.Atoi(role)
						p := payloadFor(len(key))
						if idx >= (len(e.Val)+p-1)/p {
							continue
						}
					}
				}
				if d != e.Deadline {
					rel := func(x uint32) string {
						if x == 0 {
							return "never"
						}
						return fmt.Sprintf("now%+d", int64(x)-int64(m.Now))
					}
					what := "entry"
					if strings.HasSuffix(k, ".field") {
						what = "metadata expiry field"
					}
					return clauseName("wrong-expiry", t.name, via), fmt.Sprintf("%s %s %q expires %s, the client last asked for %s", t.name, what, k, rel(d), rel(e.Deadline))
				}
			}
		}
	}
	return "", ""
}

// clauseName: for append/prepend (which must leave the expiry alone) the three ways of getting the
// expiry wrong are one clause, qualified by the command that last set the expiry.
func clauseName(kind, tier, via string) string {
	if via != "" {
		return "expiry-not-kept/" + tier + via
	}
	return kind + "/" + tier
}

func ttlAlphabet(cfg Cfg) []wire.Op {
	ttls := []uint32{0, 1, 100, 30*24*3600 - 1, 30 * 24 * 3600, 30*24*3600 + 1, bubbleEpoch + 100, bubbleEpoch - 10, bubbleEpoch + 60*24*3600 /* absolute, more than 30 days ahead */}
	var out []wire.Op
	for _, port := range cfg.Ports() {
		p := func(o wire.Op) { o.Port = port; out = append(out, o) }
		p(wire.Op{Kind: "get", Key: "a"})
		for _, t := range ttls {
			p(wire.Op{Kind: "set", Key: "a", Val: "v", Flags: 1, TTL: t})
		}
		for _, t := range ttls {
			p(wire.Op{Kind: "touch", Key: "a", TTL: t})
			p(wire.Op{Kind: "gat", Key: "a", TTL: t})
		}
		for _, t := range []uint32{0, 100, bubbleEpoch - 10} {
			p(wire.Op{Kind: "add", Key: "a", Val: "w", Flags: 2, TTL: t})
			p(wire.Op{Kind: "replace", Key: "a", Val: "u", Flags: 3, TTL: t})
		}
		p(wire.Op{Kind: "append", Key: "a", Val: "s"})
		p(wire.Op{Kind: "prepend", Key: "a", Val: "t"})
		p(wire.Op{Kind: "delete", Key: "a"})
		if cfg.Orca == "l1only" && cfg.L1H != "chunked" {
			// the remaining lifetime as the server itself reports it (get-with-expiry, L1-only)
			p(wire.Op{Kind: "gete", Key: "a"})
		}
	}
	out = append(out, wire.Op{Kind: "advance", Sec: 1}, wire.Op{Kind: "advance", Sec: 101})
	if cfg.Orca != "l1only" {
		out = append(out, wire.Op{Kind: "evict", Key: "a"})
	}
	return out
}

func runC09(c *rt.Ctx) {
	var cfgs []Cfg
	for _, o := range []string{"l1only", "l1l2", "l1l2b"} {
		for _, h := range []string{"std", "chunked", "batched"} {
			cfgs = append(cfgs, Cfg{Orca: o, Lock: "none", Proto: "binary", L1H: h})
		}
	}
	// the same through the deployment the real main program builds (TTL handling also lives in how
	// the two ports and their handlers are put together)
	cfgs = append(cfgs, Cfg{Orca: "l1l2b", Lock: "none", Proto: "binary", L1H: "std", App: true}, Cfg{Orca: "l1l2b", Lock: "multi", Proto: "binary", L1H: "chunked", App: true, Conc: 2})
	depth := 3
	if c.Thorough() {
		depth = 5
	}
	_ = time.Second
	for i, cfg := range cfgs {
		alpha := ttlAlphabet(cfg)
		bo := BFSOpts{MaxDepth: depth, MaxValLen: 3, Bubble: true, Seq: SeqOpts{ExtraCheck: ttlCheck}, Shard: true, Item: i}
		st, tr, _ := BFS(c, "C09", cfg, alpha, bo)
		_ = st
		c.Trans(int64(tr))
	}
	c.Set("depth_bound", depth)
	slowClientTTL(c)
}

// slowClientTTL: relative TTLs count from the command, not from the moment the client has taken
// the reply. The client does not read for five (virtual) seconds after sending a command whose reply
// and whose derived writes (back-fill of L1 after an L2 hit, touch of the other tier) both exist;
// afterwards every tier that holds the key must hold it until command time + TTL.
func slowClientTTL(c *rt.Ctx) {
	item := 1000
	for _, orca := range []string{"l1l2", "l1l2b"} {
		for _, l1h := range []string{"std", "chunked"} {
			for _, app := range []bool{false, true} {
				for _, evicted := range []bool{true, false} {
					for _, op := range []wire.Op{{Kind: "gat", Key: "a", TTL: 10, Opaque: 9}, {Kind: "get", Key: "a", Opaque: 9}, {Kind: "touch", Key: "a", TTL: 10, Opaque: 9},
						{Kind: "set", Key: "a", Val: "w", TTL: 10, Opaque: 9}, {Kind: "gete", Key: "a", Opaque: 9}} {
						for port := 0; port < 2; port++ {
							item++
							if !c.Mine(item) || c.Expired() {
								continue
							}
							if port == 1 && orca != "l1l2b" || app && (l1h == "chunked" || orca != "l1l2b") {
								continue
							}
							cfg := Cfg{Orca: orca, Lock: "none", Proto: "binary", L1H: l1h, App: app}
							var problem string
							InBubble(c.T, func() {
								w := NewWorld(cfg)
								defer w.Release()
								s := w.Connect(port)
								prep := w.Connect(0)
								prep.Do(wire.Op{Kind: "set", Key: "a", Val: "v", Flags: 3, TTL: 3600, Opaque: 1})
								prep.Hangup()
								if evicted {
									for _, k := range w.L1.Keys() {
										if ck, _, ok := ownerOf(k); k == "a" || ok && ck == "a" {
											w.L1.Evict(k)
										}
									}
								}
								t0 := uint32(time.Now().Unix())
								want := t0 + 3600
								if op.TTL != 0 {
									want = t0 + op.TTL
								}
								s.Cli.StopReading(1)
								s.FeedOp(op)
								synctest.Wait()
								time.Sleep(5 * time.Second)
								synctest.Wait()
								s.Cli.Unstall()
								synctest.Wait()
								s.Hangup()
								for _, t := range []struct {
									name    string
									st      *fakemc.Store
									chunked bool
								}{{"L1", w.L1, l1h == "chunked"}, {"L2", w.L2, false}} {
									for k, d := range tierDeadlines(t.st, "a", t.chunked) {
										if d != want && problem == "" {
											problem = fmt.Sprintf("%s entry %q expires at command time %+d s; the client asked for %+d s (it took its reply five seconds after sending the command)", t.name, k, int64(d)-int64(t0), int64(want)-int64(t0))
										}
									}
								}
							})
							c.Eval(1)
							c.Distinct(fmt.Sprintf("slow|%s|%s|%v|%v|%s|%d", orca, l1h, app, evicted, op.Kind, port))
							c.Nontrivial(fmt.Sprintf("slow|%s|%s|%v|%v|%s|%d", orca, l1h, app, evicted, op.Kind, port))
							if problem != "" {
								c.Violation(fmt.Sprintf("C09 wrong-expiry/slow-client op=%s cfg=%s", op.Kind, cfgClass(cfg)), fmt.Sprintf("key in L2%s, port %d: %s", map[bool]string{true: " only", false: " and L1"}[evicted], port, problem),
									map[string]interface{}{"cfg": cfg, "op": op, "evicted": evicted, "port": port})
							}
						}
					}
				}
			}
		}
	}
}
