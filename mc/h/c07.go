package h

import (
	"bufio"
	"bytes"
	"fmt"
	"github.com/netflix/rend/verifshim/vsync"
	"io"
	"net"
	"reflect"
	"strings"
	"sync"
	"time"

	"github.com/netflix/rend/common"
	"github.com/netflix/rend/handlers"
	"github.com/netflix/rend/handlers/memcached/std"
	"github.com/netflix/rend/orcas"
	"github.com/netflix/rend/protocol"
	"github.com/netflix/rend/protocol/binprot"
	"github.com/netflix/rend/protocol/textprot"
	"github.com/netflix/rend/server"

	"verif/fakemc"
	"verif/rt"
	"verif/wire"
)

func init() {
	rt.Register("C07", rt.Harness{Run: runC07})
}

// segReader returns the stream in exactly the chosen segments (one per Read), then EOF.
type segReader struct {
	b    []byte
	cuts []int // ascending cut positions (exclusive ends of segments), last segment ends at len(b)
	pos  int
	ci   int
}

func (s *segReader) Read(p []byte) (int, error) {
	if s.pos >= len(s.b) {
		return 0, io.EOF
	}
	end := len(s.b)
	for s.ci < len(s.cuts) && s.cuts[s.ci] <= s.pos {
		s.ci++
	}
	if s.ci < len(s.cuts) {
		end = s.cuts[s.ci]
	}
	n := copy(p, s.b[s.pos:end])
	s.pos += n
	return n, nil
}

// want is the generator's intent for one request.
type want struct {
	Type common.RequestType
	Req  common.Request
	Tag  string
}

func expectOf(proto string, o wire.Op) want {
	key := []byte(o.Key)
	switch o.Kind {
	case "set", "add", "replace", "append", "prepend":
		t := map[string]common.RequestType{"set": common.RequestSet, "add": common.RequestAdd, "replace": common.RequestReplace,
			"append": common.RequestAppend, "prepend": common.RequestPrepend}[o.Kind]
		r := common.SetRequest{Key: key, Data: o.Value(), Flags: o.Flags, Exptime: o.TTL, Opaque: o.Opaque, Quiet: o.QuietW}
		if proto == "binary" && (o.Kind == "append" || o.Kind == "prepend") {
			r.Flags, r.Exptime = 0, 0 // not on the wire in binary
		}
		if proto == "text" {
			r.Opaque = 0
		}
		if r.Data == nil {
			r.Data = []byte{}
		}
		return want{t, r, opTag(o)}
	case "delete":
		return want{common.RequestDelete, common.DeleteRequest{Key: key, Opaque: o.Opaque}, "delete"}
	case "touch":
		return want{common.RequestTouch, common.TouchRequest{Key: key, Exptime: o.TTL, Opaque: o.Opaque}, "touch"}
	case "gat":
		return want{common.RequestGat, common.GATRequest{Key: key, Exptime: o.TTL, Opaque: o.Opaque}, "gat"}
	case "get", "gete":
		t := common.RequestGet
		if o.Kind == "gete" {
			t = common.RequestGetE
		}
		return want{t, common.GetRequest{Keys: [][]byte{key}, Opaques: []uint32{o.Opaque}, Quiet: []bool{false}}, o.Kind}
	case "mget":
		r := common.GetRequest{NoopEnd: o.NoopEnd}
		for i, k := range o.Keys {
			r.Keys = append(r.Keys, []byte(k))
			if proto == "text" {
				r.Opaques = append(r.Opaques, 0)
				r.Quiet = append(r.Quiet, false)
			} else {
				r.Opaques = append(r.Opaques, o.Opaque+uint32(i))
				r.Quiet = append(r.Quiet, o.Quiet[i])
			}
		}
		if o.NoopEnd {
			r.NoopOpaque = o.Opaque + uint32(len(o.Keys))
		}
		return want{common.RequestGet, r, opTag(o)}
	case "noop":
		return want{common.RequestNoop, common.NoopRequest{Opaque: o.Opaque}, "noop"}
	case "version":
		return want{common.RequestVersion, common.VersionRequest{Opaque: o.Opaque}, "version"}
	case "stat":
		return want{common.RequestStat, common.StatRequest{Opaque: o.Opaque}, "stat"}
	case "quit":
		return want{common.RequestQuit, common.QuitRequest{Opaque: o.Opaque, Quiet: o.QuietW}, opTag(o)}
	}
	panic("expectOf " + o.Kind)
}

func newParser(proto string, r io.Reader) protocol.RequestParser {
	if proto == "text" {
		return textprot.Components.NewRequestParser(bufio.NewReader(r))
	}
	return binprot.Components.NewRequestParser(bufio.NewReader(r))
}

// normalize makes nil and empty byte slices comparable.
func normalize(r common.Request) common.Request {
	switch v := r.(type) {
	case common.SetRequest:
		if v.Data == nil {
			v.Data = []byte{}
		}
		return v
	}
	return r
}

// parseAll feeds the stream with the given cuts and checks the decoded sequence.
func parseAll(proto string, stream []byte, cuts []int, wants []want) (clause, detail string) {
	clause, detail = parseAll0(proto, stream, cuts, wants)
	if dp := vsync.TakeDoublePuts(); len(dp) > 0 && clause == "" {
		return "pooled-object-put-twice", "decoding this stream returned a pooled object to its pool twice (two later requests, possibly of different connections, will share it): " + dp[0]
	}
	return
}

func parseAll0(proto string, stream []byte, cuts []int, wants []want) (clause, detail string) {
	sr := &segReader{b: stream, cuts: cuts}
	p := newParser(proto, sr)
	for i, w := range wants {
		req, typ, _, err := p.Parse()
		if err != nil {
			return "decode-error", fmt.Sprintf("request %d (%s): parser returned %v", i, w.Tag, err)
		}
		if typ != w.Type {
			return "wrong-command", fmt.Sprintf("request %d (%s): decoded as type %d, sent type %d", i, w.Tag, typ, w.Type)
		}
		if !reflect.DeepEqual(normalize(req), w.Req) {
			return "wrong-fields", fmt.Sprintf("request %d (%s): decoded %s, sent %s", i, w.Tag, short(req), short(w.Req))
		}
	}
	// the stream must be consumed exactly: one more Parse meets EOF without having read a byte
	req, _, _, err := p.Parse()
	if err != io.EOF {
		return "residue", fmt.Sprintf("after the %d requests sent the parser produced %s / %v instead of EOF: bytes of a request were left unread or over-read", len(wants), short(req), err)
	}
	return "", ""
}

func short(r interface{}) string {
	s := fmt.Sprintf("%+v", r)
	if len(s) > 300 {
		s = s[:300] + "..."
	}
	return s
}

func keyOf(n int, binary bool) string {
	b := make([]byte, n)
	for i := range b {
		b[i] = 'k' + byte(i%7)
	}
	if binary && n >= 2 {
		// arbitrary bytes are legal in binary keys
		special := []byte{0x00, 0x80, '\r', '\n', ' ', 0xff}
		for i := 0; i < n && i < len(special); i++ {
			b[(i*37)%n] = special[i]
		}
	}
	if !binary && n >= 16 {
		// text keys may hold any byte but blanks and control characters; bytes above 0x7f are legal,
		// also where they spell a Unicode blank (no-break space, ideographic space, next line, line
		// separator): tokenising must be by the ASCII space only
		copy(b[3:], "\xc2\xa0")
		copy(b[6:], "\xe3\x80\x80")
		copy(b[10:], "\xc2\x85")
		copy(b[n-4:], "\xe2\x80\xa8")
	}
	return string(b)
}

func dataOf(n int) string {
	b := wire.GenValue(n, n+3)
	pat := []byte("\r\nEND\r\n\x80\x00 VALUE x 0 1\r\n")
	for i := 0; i+len(pat) <= n; i += 97 {
		copy(b[i:], pat)
	}
	if n > 0 {
		b[n-1] = '\r'
	}
	if n > 1 {
		b[0] = '\n'
	}
	return string(b)
}

var u32s = []uint32{0, 1, 0x7fffffff, 0x80000000, 0xffffffff}

// gridOps is the full request grid of one protocol.
func gridOps(proto string, thorough bool) []wire.Op {
	bin := proto == "binary"
	klens := []int{1, 2, 249, 250}
	dlens := []int{0, 1, 2, 4095, 4096, 4097, 65536}
	if thorough {
		klens = append(klens, 3, 7, 8, 63, 64, 65, 127, 128)
		dlens = append(dlens, 3, 23, 24, 25, 1023, 1024, 1025, 8191, 8192, 8193, 65535, 65537)
	}
	var out []wire.Op
	n := 0
	nx := func() uint32 { n++; return u32s[n%len(u32s)] }
	for _, kl := range klens {
		k := keyOf(kl, bin)
		for _, kind := range []string{"set", "add", "replace", "append", "prepend"} {
			for _, dl := range dlens {
				for _, q := range []bool{false, true} {
					if q && !bin {
						continue
					}
					out = append(out, wire.Op{Kind: kind, Key: k, Val: dataOf(dl), Flags: nx(), TTL: nx(), Opaque: nx(), QuietW: q})
				}
			}
		}
		for _, v := range u32s {
			out = append(out, wire.Op{Kind: "touch", Key: k, TTL: v, Opaque: nx()})
			out = append(out, wire.Op{Kind: "delete", Key: k, Opaque: v})
			out = append(out, wire.Op{Kind: "get", Key: k, Opaque: v})
			if bin {
				out = append(out, wire.Op{Kind: "gat", Key: k, TTL: v, Opaque: nx()})
				out = append(out, wire.Op{Kind: "gete", Key: k, Opaque: v})
			}
		}
		k2 := keyOf(kl, false) + "x"
		if len(k2) > 250 {
			k2 = k2[:250]
		}
		if bin {
			for _, base := range []uint32{0, 0x7ffffffe, 0xfffffff0} {
				out = append(out,
					wire.Op{Kind: "mget", Keys: []string{k}, Quiet: []bool{true}, NoopEnd: true, Opaque: base},
					wire.Op{Kind: "mget", Keys: []string{k, k2}, Quiet: []bool{true, false}, Opaque: base},
					wire.Op{Kind: "mget", Keys: []string{k, k2}, Quiet: []bool{true, true}, NoopEnd: true, Opaque: base},
					wire.Op{Kind: "mget", Keys: []string{k, k2, k}, Quiet: []bool{true, true, false}, Opaque: base},
					wire.Op{Kind: "mget", Keys: []string{k2, k, k}, Quiet: []bool{true, true, true}, NoopEnd: true, Opaque: base},
				)
			}
		} else {
			out = append(out, wire.Op{Kind: "mget", Keys: []string{k, k2}, Quiet: []bool{false, false}},
				wire.Op{Kind: "mget", Keys: []string{k, k2, k}, Quiet: []bool{false, false, false}})
		}
	}
	// long multi-key gets: text lines and binary batches that cross the 4096-byte bufio buffer,
	// 8192 and 65536 bytes, and key counts around 4096 and 65536
	for _, shape := range [][2]int{{17, 250}, {20, 250}, {33, 250}, {100, 40}, {103, 39}, {300, 250}, {1000, 7}, {4095, 5}, {4096, 5}, {4097, 5}, {10000, 5}, {65535, 5}, {65536, 5}, {70000, 5}} {
		n, kl := shape[0], shape[1]
		var keys []string
		var quiet []bool
		for i := 0; i < n; i++ {
			k := []byte(keyOf(kl, false))
			copy(k, fmt.Sprintf("%04d", i))
			keys = append(keys, string(k))
			quiet = append(quiet, bin && i < n-1)
		}
		out = append(out, wire.Op{Kind: "mget", Keys: keys, Quiet: quiet, Opaque: 0x5000})
		if bin {
			q2 := make([]bool, n)
			for i := range q2 {
				q2[i] = true
			}
			out = append(out, wire.Op{Kind: "mget", Keys: keys, Quiet: q2, NoopEnd: true, Opaque: 0x9000})
		}
	}
	for _, v := range u32s {
		out = append(out, wire.Op{Kind: "noop", Opaque: v}, wire.Op{Kind: "version", Opaque: v}, wire.Op{Kind: "stat", Opaque: v}, wire.Op{Kind: "quit", Opaque: v})
		if bin {
			out = append(out, wire.Op{Kind: "quit", Opaque: v, QuietW: true})
		}
	}
	if !bin {
		for i := range out {
			out[i].Opaque = 0
		}
	}
	return out
}

// repOps are short representative requests used for pipelines and segmentation.
func repOps(proto string) []wire.Op {
	bin := proto == "binary"
	ops := []wire.Op{
		{Kind: "set", Key: "k1", Val: "v\r\nx", Flags: 0x80000000, TTL: 1, Opaque: 0x01020304},
		{Kind: "add", Key: "k", Val: "", Flags: 1, TTL: 0xffffffff, Opaque: 7},
		{Kind: "replace", Key: "kk", Val: "END\r\n", Flags: 0, TTL: 0, Opaque: 0xffffffff},
		{Kind: "append", Key: "k", Val: "a", Opaque: 9},
		{Kind: "prepend", Key: "k", Val: "\n", Opaque: 10},
		{Kind: "get", Key: "k", Opaque: 11},
		{Kind: "delete", Key: "kd", Opaque: 12},
		{Kind: "touch", Key: "k", TTL: 0x7fffffff, Opaque: 13},
		{Kind: "noop", Opaque: 14},
		{Kind: "version", Opaque: 15},
		{Kind: "stat", Opaque: 16},
	}
	if bin {
		ops = append(ops,
			wire.Op{Kind: "gat", Key: "k", TTL: 5, Opaque: 17},
			wire.Op{Kind: "gete", Key: "k", Opaque: 18},
			wire.Op{Kind: "mget", Keys: []string{"a", "b"}, Quiet: []bool{true, false}, Opaque: 0x100},
			wire.Op{Kind: "mget", Keys: []string{"a", "bb"}, Quiet: []bool{true, true}, NoopEnd: true, Opaque: 0x200},
			wire.Op{Kind: "set", Key: "q", Val: "z", QuietW: true, Opaque: 19},
		)
	} else {
		ops = append(ops, wire.Op{Kind: "mget", Keys: []string{"a", "b", "a"}, Quiet: []bool{false, false, false}})
		for i := range ops {
			ops[i].Opaque = 0
		}
	}
	return ops
}

type memListener struct {
	conns chan net.Conn
}

func (l *memListener) Accept() (net.Conn, error) {
	c, ok := <-l.conns
	if !ok {
		select {} // no more connections: block like an idle listening socket
	}
	return c, nil
}
func (l *memListener) Configure(c net.Conn) (net.Conn, error) { return c, nil }

type firstByteConn struct {
	data   []byte
	closed chan struct{}
	once   sync.Once
}

func (c *firstByteConn) Read(p []byte) (int, error) {
	if len(c.data) == 0 {
		return 0, io.EOF
	}
	n := copy(p, c.data)
	c.data = c.data[n:]
	return n, nil
}
func (c *firstByteConn) Write(p []byte) (int, error)        { return len(p), nil }
func (c *firstByteConn) Close() error                       { c.once.Do(func() { close(c.closed) }); return nil }
func (c *firstByteConn) LocalAddr() net.Addr                { return nil }
func (c *firstByteConn) RemoteAddr() net.Addr               { return nil }
func (c *firstByteConn) SetDeadline(t time.Time) error      { return nil }
func (c *firstByteConn) SetReadDeadline(t time.Time) error  { return nil }
func (c *firstByteConn) SetWriteDeadline(t time.Time) error { return nil }

type nopServer struct{}

func (nopServer) Loop() {}

// disambiguate runs all 256 first bytes through the real accept loop and returns the protocol the
// server chose for each ("binary"/"text").
func disambiguate() map[byte]string {
	l := &memListener{conns: make(chan net.Conn)}
	chosen := make(chan string, 1)
	sc := func(conns []io.Closer, rp protocol.RequestParser, o orcas.Orca) server.Server {
		switch rp.(type) {
		case binprot.BinaryParser:
			chosen <- "binary"
		case textprot.TextParser:
			chosen <- "text"
		default:
			chosen <- fmt.Sprintf("%T", rp)
		}
		return nopServer{}
	}
	st := fakemc.NewStore("L1")
	h1 := func() (handlers.Handler, error) {
		return std.NewHandler(fakemc.NewConn(st, "x")), nil
	}
	go server.ListenAndServe(func() (server.Listener, error) { return l, nil },
		[]protocol.Components{binprot.Components, textprot.Components}, sc, orcas.L1Only, h1, handlers.NilHandler)
	out := map[byte]string{}
	for b := 0; b < 256; b++ {
		l.conns <- &firstByteConn{data: []byte{byte(b), 'x'}, closed: make(chan struct{})}
		out[byte(b)] = <-chosen
	}
	return out
}

// fullStackSegments: decoding must not depend on packet boundaries either when the parser works
// next to the responder on a live connection (they share pooled header buffers, and what was
// answered before may decide what a buffer looks like when the next request is read). A command
// sequence is sent through parser -> server loop -> orchestrator -> handler with one request at a
// time cut up in every listed way; replies must be the reference map's and the backend must end up
// exactly as when everything is sent whole.
func fullStackSegments(c *rt.Ctx, item *int) {
	for _, cfg := range []Cfg{{Orca: "l1only", Lock: "none", Proto: "binary", L1H: "std"}, {Orca: "l1l2", Lock: "none", Proto: "binary", L1H: "std"},
		{Orca: "l1only", Lock: "none", Proto: "text", L1H: "std"}, {Orca: "l1l2b", Lock: "multi", Proto: "binary", L1H: "chunked", App: true, Conc: 2}} {
		bin := cfg.Proto == "binary"
		big := string(wire.GenValue(300, 9))
		if !bin {
			big = strings.Repeat("segmented-value ", 20)
		}
		kc := "c"
		if !bin {
			kc = "c\xe3\x80\x80d\xc2\xa0e" // one key: the bytes of two Unicode blanks inside it
		}
		ops := []wire.Op{
			{Kind: "set", Key: "user:1234:profile", Val: "hello-world-value", Flags: 0xCAFEF00D, TTL: 3600},
			{Kind: "get", Key: "user:1234:profile"},
			{Kind: "set", Key: "b", Val: big, Flags: 7},
			{Kind: "mget", Keys: []string{"user:1234:profile", "nope", "b"}, Quiet: []bool{bin, bin, false}},
			{Kind: "append", Key: "b", Val: "-tail"},
			{Kind: "add", Key: kc, Val: "v", Flags: 1, TTL: 100},
			{Kind: "touch", Key: "user:1234:profile", TTL: 100},
			{Kind: "replace", Key: kc, Val: "w", Flags: 2},
			{Kind: "delete", Key: "b"},
			{Kind: "get", Key: kc},
			{Kind: "mget", Keys: []string{kc, "c", "d"}, Quiet: []bool{bin, bin, false}},
		}
		if bin {
			ops = append(ops[:2:2], append([]wire.Op{{Kind: "gat", Key: "user:1234:profile", TTL: 50}}, ops[2:]...)...)
			if cfg.Orca == "l1only" {
				// a get-with-expiry hit: the one reply with extras of a different size
				ops = append(ops[:2:2], append([]wire.Op{{Kind: "gete", Key: "user:1234:profile"}}, ops[2:]...)...)
			}
		}
		var wholeKey string
		for oi := -1; oi < len(ops); oi++ {
			for _, seg := range []string{"h", "1", "b", "3", "l"} {
				if oi < 0 && seg != "h" {
					continue // oi = -1: everything whole (the reference run)
				}
				*item++
				if !c.Mine(*item) && oi >= 0 {
					continue
				}
				run := append([]wire.Op{}, ops...)
				if oi >= 0 {
					run[oi].Seg = seg
				}
				sc := SeqScenario{Harness: "C07", Cfg: cfg, Ops: run}
				var r *SeqResult
				InBubble(c.T, func() { r = RunSeq(sc, SeqOpts{}) })
				c.Eval(1)
				c.Trace(1)
				for _, f := range r.Findings {
					c.Violation(f.Sig+" segmented-on-a-live-connection", f.What, sc)
				}
				if oi < 0 {
					wholeKey = r.StateKey
				} else if len(r.Findings) == 0 && r.StateKey != wholeKey {
					c.Violation(fmt.Sprintf("C07 state-depends-on-segmentation proto=%s", cfg.Proto), fmt.Sprintf("request %d (%s) sent as %q: backends end up as %s, sent whole as %s", oi, ops[oi], seg, r.StateKey, wholeKey), sc)
				}
				c.Distinct(fmt.Sprintf("live|%s|%d|%s", cfg, oi, seg))
				c.Nontrivial(fmt.Sprintf("live|%s|%d|%s", cfg, oi, seg))
			}
		}
	}
}

func runC07(c *rt.Ctx) {
	item := 0
	fullStackSegments(c, &item)
	report := func(proto, clause, detail string, ops []wire.Op, cuts []int) {
		tags := ""
		for _, o := range ops {
			tags += opTag(o) + ","
		}
		sig := fmt.Sprintf("C07 %s proto=%s first=%s", clause, proto, opTag(ops[0]))
		if len(cuts) > 0 {
			sig += " segmented"
		}
		c.Violation(sig, fmt.Sprintf("%s [requests %s cuts %v]", detail, tags, cuts), map[string]interface{}{"proto": proto, "ops": ops, "cuts": cuts})
	}
	for _, proto := range []string{"binary", "text"} {
		// (1) the full request grid, unsegmented and byte-at-a-time (plus 3-byte and 4095-byte reads)
		for _, op := range gridOps(proto, c.Thorough()) {
			item++
			if !c.Mine(item) {
				continue
			}
			if c.Expired() {
				return
			}
			stream := wire.Encode(proto, op)
			ws := []want{expectOf(proto, op)}
			for _, step := range []int{0, 1, 3, 4095} {
				var cuts []int
				if step > 0 {
					if step == 1 && len(stream) > 9000 {
						continue
					}
					for p := step; p < len(stream); p += step {
						cuts = append(cuts, p)
					}
				}
				c.Eval(1)
				if cl, d := parseAll(proto, stream, cuts, ws); cl != "" {
					report(proto, cl, d, []wire.Op{op}, cuts[:min(len(cuts), 4)])
				}
			}
			c.Distinct(proto + "|" + opTag(op) + fmt.Sprint(len(op.Key), len(op.Val), op.Flags, op.TTL, op.Opaque))
			if len(op.Val) > 4000 || len(op.Keys) > 1 {
				c.Nontrivial(proto + "|" + opTag(op) + fmt.Sprint(len(op.Key), len(op.Val), op.Flags, op.TTL, op.Opaque))
			}
		}
		// (2) pipelines of representative requests: every single split point, every pair of split
		// points, and all 2^14 segmentations of the first and of the last 14 byte positions
		reps := repOps(proto)
		var pipes [][]wire.Op
		for _, a := range reps {
			pipes = append(pipes, []wire.Op{a})
			for _, b := range reps {
				pipes = append(pipes, []wire.Op{a, b})
			}
		}
		if c.Thorough() {
			for i, a := range reps {
				for j, b := range reps {
					pipes = append(pipes, []wire.Op{a, b, reps[(i+j+1)%len(reps)]})
				}
			}
		}
		for _, pipe := range pipes {
			item++
			if !c.Mine(item) {
				continue
			}
			if c.Expired() {
				return
			}
			var stream []byte
			var ws []want
			for _, op := range pipe {
				stream = append(stream, wire.Encode(proto, op)...)
				ws = append(ws, expectOf(proto, op))
			}
			L := len(stream)
			try := func(cuts []int) {
				c.Eval(1)
				if cl, d := parseAll(proto, stream, cuts, ws); cl != "" {
					report(proto, cl, d, pipe, cuts)
				}
			}
			try(nil)
			for i := 1; i < L; i++ {
				try([]int{i})
			}
			if len(pipe) <= 2 {
				for i := 1; i < L; i++ {
					for j := i + 1; j < L; j++ {
						try([]int{i, j})
					}
				}
			}
			if len(pipe) == 1 || c.Thorough() && len(pipe) == 2 {
				k := 13
				if L-1 < k {
					k = L - 1
				}
				for _, atEnd := range []bool{false, true} {
					for mask := 0; mask < 1<<uint(k); mask++ {
						var cuts []int
						for b := 0; b < k; b++ {
							if mask&(1<<uint(b)) != 0 {
								if atEnd {
									cuts = append(cuts, L-k+b)
								} else {
									cuts = append(cuts, b+1)
								}
							}
						}
						try(cuts)
					}
				}
			}
			key := proto + "|pipe|"
			for _, o := range pipe {
				key += opTag(o) + ","
			}
			c.Distinct(key)
			if len(pipe) > 1 {
				c.Nontrivial(key)
			}
			if item%61 == 0 {
				c.Sample(map[string]interface{}{"proto": proto, "pipeline": opsStrings(pipe), "stream_len": L, "stream": fmt.Sprintf("%q", stream)})
			}
		}
	}
	// (3) first-byte disambiguation through CanParse and through the real accept loop
	if c.Mine(0) {
		sel := disambiguate()
		for b := 0; b < 256; b++ {
			pk := bufio.NewReader(bytes.NewReader([]byte{byte(b), 0}))
			isBin, _ := binprot.Components.NewDisambiguator(pk).CanParse()
			isTxt, _ := textprot.Components.NewDisambiguator(pk).CanParse()
			c.Eval(2)
			wantBin := b == 0x80
			wantTxt := b >= 'a' && b <= 'z'
			if isBin != wantBin || isTxt != wantTxt {
				c.Violation("C07 disambiguation-canparse", fmt.Sprintf("first byte %#x: binary=%v text=%v", b, isBin, isTxt), map[string]interface{}{"byte": b})
			}
			if wantBin && sel[byte(b)] != "binary" || wantTxt && sel[byte(b)] != "text" {
				c.Violation("C07 disambiguation-listen", fmt.Sprintf("first byte %#x: the accept loop chose the %s parser", b, sel[byte(b)]), map[string]interface{}{"byte": b})
			}
		}
		c.Set("first_bytes", 256)
	}
}
