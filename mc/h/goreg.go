package h

import (
	"runtime"
	"sync"
)

// goReg maps goroutines to the logical thread (client connection) they work for. It is only
// switched on for scenarios in which virtual time may pass (a timer can then wake a thread other
// than the one the scheduler released last, so "the running thread" no longer identifies the
// caller of a hooked operation). Goroutines are registered when they touch an object whose owner
// is known: the client socket of a session, a backend connection opened for it.
type goReg struct {
	mu sync.Mutex
	m  map[int64]int
}

var curGoReg *goReg

func newGoReg() *goReg { return &goReg{m: map[int64]int{}} }

func goid() int64 {
	var buf [48]byte
	n := runtime.Stack(buf[:], false)
	// "goroutine 123 [running]:"
	var id int64
	for _, c := range buf[10:n] {
		if c < '0' || c > '9' {
			break
		}
		id = id*10 + int64(c-'0')
	}
	return id
}

func (r *goReg) adopt(tid int) {
	if r == nil || tid < 0 {
		return
	}
	g := goid()
	r.mu.Lock()
	r.m[g] = tid
	r.mu.Unlock()
}

func (r *goReg) resolve() int {
	g := goid()
	r.mu.Lock()
	defer r.mu.Unlock()
	if t, ok := r.m[g]; ok {
		return t
	}
	return -1
}
