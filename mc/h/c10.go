package h

import (
	"encoding/json"
	"fmt"
	"github.com/netflix/rend/verifshim/vsync"
	"strings"

	"verif/fakemc"
	"verif/rt"
	"verif/wire"
)

func init() {
	rt.Register("C10", rt.Harness{Run: runC10, Replay: func(c *rt.Ctx, raw json.RawMessage) string {
		var sc FaultScenario
		if err := json.Unmarshal(raw, &sc); err != nil {
			return "bad scenario: " + err.Error()
		}
		var fs []Finding
		var tr string
		NoBubble(func() { fs, tr, _, _ = RunFault(sc) })
		if len(fs) == 0 {
			return tr + "\nOK: no finding"
		}
		s := "VIOLATION reproduced:\n"
		for _, f := range fs {
			s += "  " + f.Sig + " :: " + f.What + "\n"
		}
		return s + tr
	}})
}

// Dev is one deviation of the environment: a fault on the i-th backend request the faulted
// connection sends to a tier.
type Dev struct {
	Tier  int          `json:"tier"`
	Idx   int          `json:"idx"`
	Fault fakemc.Fault `json:"fault"`
}

// FaultScenario: prior state, one faulted command on its own connection, a bystander connection,
// follow-up reads on a fresh connection.
type FaultScenario struct {
	Cfg   Cfg     `json:"cfg"`
	Prior string  `json:"prior"` // absent | both | l2only
	Cmd   wire.Op `json:"cmd"`
	Devs  []Dev   `json:"devs"`
}

const (
	fKey  = "k"
	fOldF = 0x11
	fNewF = 0x22
)

// values spanning several chunks of the chunked handler (and several bufio reads everywhere)
var (
	fOld = "old-" + string(wire.GenValue(2400, 1))
	fNew = "NEW-" + string(wire.GenValue(1300, 2))
)

func faultCmds(cfg Cfg) []wire.Op {
	bin := cfg.Proto == "binary"
	cmds := []wire.Op{
		{Kind: "set", Key: fKey, Val: fNew, Flags: fNewF},
		{Kind: "add", Key: fKey, Val: fNew, Flags: fNewF},
		{Kind: "replace", Key: fKey, Val: fNew, Flags: fNewF},
		{Kind: "append", Key: fKey, Val: "+s"},
		{Kind: "prepend", Key: fKey, Val: "p+"},
		{Kind: "delete", Key: fKey},
		{Kind: "touch", Key: fKey, TTL: 100},
		{Kind: "get", Key: fKey},
		{Kind: "mget", Keys: []string{fKey, "other", fKey}, Quiet: []bool{bin, bin, false}},
	}
	if bin {
		cmds = append(cmds, wire.Op{Kind: "gat", Key: fKey, TTL: 100},
			wire.Op{Kind: "mget", Keys: []string{"other", fKey}, Quiet: []bool{true, true}, NoopEnd: true})
	}
	return cmds
}

// possible values of the key after the (possibly unacknowledged) command, given the value before
func afterValues(cmd wire.Op, had bool) (vals []string, mayMiss bool) {
	switch cmd.Kind {
	case "set":
		return []string{fNew + "/22"}, false
	case "add":
		if had {
			return []string{fOld + "/11"}, false
		}
		return []string{fNew + "/22"}, false
	case "replace":
		if had {
			return []string{fNew + "/22"}, false
		}
		return nil, true
	case "append":
		if had {
			return []string{fOld + "+s/11"}, false
		}
		return nil, true
	case "prepend":
		if had {
			return []string{"p+" + fOld + "/11"}, false
		}
		return nil, true
	case "delete":
		return nil, true
	}
	if had {
		return []string{fOld + "/11"}, false
	}
	return nil, true
}

func isWrite(k string) bool {
	switch k {
	case "set", "add", "replace", "append", "prepend", "delete":
		return true
	}
	return false
}

// RunFault executes one fault scenario. It returns the findings, a trace, and the number of
// backend requests the faulted command sent per tier (used to enumerate fault positions).
func RunFault(sc FaultScenario) (fs []Finding, trace string, n1, n2 int) {
	vsync.TakeDoublePuts()
	defer func() {
		if f := doublePut("C10"); f != nil {
			f.Sig += " op=" + opTag(sc.Cmd) + " l1=" + sc.Cfg.L1H
			fs = append(fs, *f)
		}
	}()
	w := NewWorld(sc.Cfg)
	w.SeqGuard = true // commands are issued one at a time: a key lock that is not granted at once never will be
	defer w.Release()
	add := func(clause, what string) {
		d := "none"
		for i, dv := range sc.Devs {
			if i == 0 {
				d = fmt.Sprintf("L%d:%s", dv.Tier, faultClass(dv.Fault))
			} else {
				d += fmt.Sprintf("+L%d:%s", dv.Tier, faultClass(dv.Fault))
			}
		}
		sig := fmt.Sprintf("C10 %s op=%s cfg=%s prior=%s fault=%s", clause, opTag(sc.Cmd), cfgClass(sc.Cfg), sc.Prior, d)
		if (clause == "stale-after-ack" || clause == "same-connection-stale") && sc.Cmd.Kind == "set" && len(sc.Devs) == 2 && sc.Devs[0].Tier == 1 && sc.Devs[1].Tier == 1 {
			// one call site, one fault pattern: the L1 write of a set is refused and the
			// compensating L1 delete fails as well, yet the set is acknowledged
			sig = fmt.Sprintf("C10 set-acked-after-failed-compensating-delete orca=%s l1=%s", sc.Cfg.Orca, sc.Cfg.L1H)
		}
		fs = append(fs, Finding{Sig: sig, What: what, Clause: clause})
	}
	// prior state through a fault-free connection
	s0 := w.Connect(0)
	had := sc.Prior != "absent"
	if had && sc.Prior != "own" {
		s0.Do(wire.Op{Kind: "set", Key: fKey, Val: fOld, Flags: fOldF, Opaque: 1})
		if sc.Prior == "l2only" {
			for _, k := range w.L1.Keys() {
				w.L1.Evict(k)
			}
		} else if sc.Cfg.Orca != "l1only" && w.L1.Lookup(fKey) == nil && sc.Cfg.L1H == "std" {
			// make sure L1 holds the value (the batch port does not populate L1)
			s0.Do(wire.Op{Kind: "get", Key: fKey, Opaque: 17})
		}
	}
	s0.Hangup()
	// bystander
	by := w.Connect(0)
	by.Do(wire.Op{Kind: "set", Key: "z", Val: "bystander", Flags: 5, Opaque: 0x500})
	// faulted connection
	w.ConnHook = func(tier int, c *fakemc.Conn) {
		for _, d := range sc.Devs {
			if d.Tier == tier {
				if c.Faults == nil {
					c.Faults = map[int]fakemc.Fault{}
				}
				c.Faults[d.Idx] = d.Fault
			}
		}
	}
	own := sc.Prior == "own"
	if own {
		w.ConnHook = nil
	}
	a := w.Connect(sc.Cmd.Port)
	w.ConnHook = nil
	b1, b2 := 0, 0
	if own {
		// the faulted connection itself wrote the value the command then meets: fault positions
		// count from the first backend request of the faulted command
		a.Do(wire.Op{Kind: "set", Key: fKey, Val: fOld, Flags: fOldF, Opaque: 1})
		b1 = a.L1c.NReq
		if a.L2c != nil {
			b2 = a.L2c.NReq
		}
		for _, d := range sc.Devs {
			cn, b := a.L1c, b1
			if d.Tier == 2 {
				cn, b = a.L2c, b2
			}
			if cn == nil {
				continue
			}
			if cn.Faults == nil {
				cn.Faults = map[int]fakemc.Fault{}
			}
			cn.Faults[b+d.Idx] = d.Fault
		}
	}
	cmd := sc.Cmd
	cmd.Opaque = 0x7000
	a.Do(cmd)
	n1 = a.L1c.NReq - b1
	if a.L2c != nil {
		n2 = a.L2c.NReq - b2
	}
	closed := a.Ended && a.Cli.Closed() // the loop ended and the server really closed the client socket
	// a further command on the same connection, if the server kept it open: the backend streams
	// must still be in sync
	sameConn := false
	ended1, ended2 := false, false // the server ended the connection while answering follow-up 1 / 2
	if !a.Ended {
		sameConn = true
		a.Do(wire.Op{Kind: "get", Key: fKey, Opaque: 0x7100})
		ended1, ended2 = a.Ended, a.Ended
		if !a.Ended && sc.Cfg.Lock != "none" {
			// and a get whose terminator is a frame / line of its own
			a.Do(wire.Op{Kind: "mget", Keys: []string{fKey}, Quiet: []bool{sc.Cfg.Proto == "binary"}, NoopEnd: sc.Cfg.Proto == "binary", Opaque: 0x7200})
			ended2 = a.Ended
		}
	}
	by.Do(wire.Op{Kind: "get", Key: "z", Opaque: 0x510})
	byEnded := by.Ended
	a.Hangup()
	by.Hangup()
	// follow-up reads on a fresh connection
	f := w.Connect(0)
	f.Do(wire.Op{Kind: "get", Key: fKey, Opaque: 0x9000})
	f.Do(wire.Op{Kind: "get", Key: fKey, Opaque: 0x9010})
	f.Hangup()

	ar := a.RepliesLenient()
	if own && len(ar) > 0 {
		ar = ar[1:]
	}
	br, _, _ := by.Replies()
	fr, _, _ := f.Replies()
	short := func(r wire.Reply) string {
		s := r.Canon()
		if len(s) > 120 {
			s = s[:120] + "..."
		}
		return s
	}
	trace = fmt.Sprintf("cfg=%s prior=%s cmd=%s devs=%+v\n faulted reply: %s (connection closed by server: %v)\n bystander: %s | %s\n follow-up reads: %s | %s\n",
		sc.Cfg, sc.Prior, opTag(cmd), sc.Devs, short(ar[0]), closed, short(br[0]), short(br[1]), short(fr[0]), short(fr[1]))

	// (a) termination
	if t := w.LockTrouble(); t != "" {
		add("key-lock-never-granted", t)
	}
	hung, spun, _, _ := w.Diag()
	if hung {
		add("hang", "the request never terminates: a handler waits for backend bytes that will never arrive")
	}
	if spun {
		add("spin", "the request never terminates: a handler keeps reading a closed backend connection in a loop")
	}
	for _, s := range []*Session{a, by, f} {
		if s.Panics != nil {
			add("panic-escaped", fmt.Sprint(s.Panics))
		}
	}
	// (b) what the client of the faulted connection saw
	r := ar[0]
	if r.Malformed != "" && !(closed && strings.HasSuffix(r.Malformed, "reply not terminated")) {
		// (a value list cut short by the server closing the connection is an allowed outcome)
		add("malformed-reply", r.Malformed)
	}
	acked := false
	switch r.Class {
	case "ok":
		acked = true
	case "values":
		want, _ := afterValues(wire.Op{Kind: "get"}, had)
		for _, h := range r.Hits {
			got := fmt.Sprintf("%s/%x", h.Val, h.Flags)
			if len(want) == 0 || got != want[0] {
				add("wrong-value", fmt.Sprintf("faulted read returned %q", trunc40(got)))
			}
		}
		exp := ApplyModel(modelWith(had), sc.Cfg.Proto, cmd)
		if r.Terms != exp.Terms && !closed && r.Errs == 0 {
			add("terminator", fmt.Sprintf("%d terminator(s), expected %d, connection still open", r.Terms, exp.Terms))
		}
	case "none":
		if !closed && !hung && !spun && r.Errs == 0 {
			add("no-reply", "the client received neither a reply nor a close")
		}
	}
	// (d) the bystander is unaffected
	if br[0].Class != "ok" || br[1].Class != "values" || len(br[1].Hits) != 1 || br[1].Hits[0].Val != "bystander" || byEnded {
		add("bystander-affected", fmt.Sprintf("bystander connection saw %s | %s", br[0].Canon(), br[1].Canon()))
	}
	// (e) reads after the fault
	allowed := map[string]bool{}
	mayMiss := true // a miss is always acceptable
	before, _ := afterValues(wire.Op{Kind: "get"}, had)
	after, _ := afterValues(cmd, had)
	if isWrite(cmd.Kind) {
		for _, v := range after {
			allowed[v] = true
		}
		if !acked {
			for _, v := range before {
				allowed[v] = true
			}
		}
	} else {
		for _, v := range before {
			allowed[v] = true
		}
	}
	_ = mayMiss
	if sameConn && len(ar) > 1 {
		rr := ar[1]
		switch {
		case rr.Malformed != "" && !(ended1 && strings.HasSuffix(rr.Malformed, "reply not terminated")):
			add("same-connection-followup", "the next command on the faulted connection got a malformed reply: "+rr.Malformed)
		case rr.Class == "values":
			for _, h := range rr.Hits {
				got := fmt.Sprintf("%s/%x", h.Val, h.Flags)
				if !allowed[got] {
					cl := "same-connection-followup"
					if acked && len(before) > 0 && got == before[0] {
						cl = "same-connection-stale"
					}
					add(cl, fmt.Sprintf("the next command on the faulted connection returned %q (acknowledged=%v)", trunc40(got), acked))
				}
			}
		case rr.Class == "none" && !a.Cli.Closed() && !hung && !spun && rr.Errs == 0:
			add("same-connection-followup", "the next command on the faulted connection got neither a reply nor a close")
		}
	}
	if sameConn && len(ar) > 2 {
		rr := ar[2]
		switch {
		case rr.Malformed != "" && !(ended2 && strings.HasSuffix(rr.Malformed, "reply not terminated")):
			add("same-connection-followup", "the second command after the fault on the faulted connection got a malformed reply: "+rr.Malformed)
		case rr.Class == "values" && rr.Terms != 1 && !a.Cli.Closed() && rr.Errs == 0:
			add("same-connection-followup", fmt.Sprintf("a later get on the faulted connection was answered with %d terminators", rr.Terms))
		case rr.Class == "none" && !a.Cli.Closed() && !hung && !spun && rr.Errs == 0:
			add("same-connection-followup", "a later get on the faulted connection got neither a reply nor a close")
		}
	}
	for i, rr := range fr {
		if rr.Class != "values" || rr.Malformed != "" {
			if !hung && !spun {
				add("followup-read-failed", fmt.Sprintf("fault-free read %d on a fresh connection: %s", i, rr))
			}
			continue
		}
		for _, h := range rr.Hits {
			got := fmt.Sprintf("%s/%x", h.Val, h.Flags)
			if !allowed[got] {
				cl := "wrong-value-after-fault"
				if acked && len(before) > 0 && got == before[0] {
					cl = "stale-after-ack"
				}
				add(cl, fmt.Sprintf("read %d after the fault returned %q; acknowledged=%v", i, trunc40(got), acked))
			}
		}
	}
	return
}

func trunc40(s string) string {
	if len(s) > 40 {
		return s[:40] + fmt.Sprintf("..(%d)", len(s))
	}
	return s
}

func keysOf(m map[string]bool) []string {
	var o []string
	for k := range m {
		o = append(o, k)
	}
	return o
}

func dumpTier(w *World, t int) string {
	st := w.L1
	if t == 2 {
		st = w.L2
	}
	if t == 1 && w.Cfg.L1H == "chunked" {
		return chunkDump(st)
	}
	return st.Dump()
}

func faultClass(f fakemc.Fault) string {
	switch f.Kind {
	case fakemc.FStatus:
		return fmt.Sprintf("status-%#x", f.Status)
	case fakemc.FCloseAfterBytes:
		if f.K < 24 {
			return "close-mid-header"
		}
		if f.K == 24 {
			return "close-after-header"
		}
		return "close-mid-body"
	}
	return f.Kind.String()
}

func allFaults() []fakemc.Fault {
	var fs []fakemc.Fault
	// 0x02 (exists) is not injected: it is only ever truthful for an add on a present key, which the
	// fault-free runs with prior state "both" already produce.
	for _, st := range []uint16{0x01, 0x03, 0x04, 0x05, 0x81, 0x82, 0x83, 0x84, 0x85, 0x86} {
		fs = append(fs, fakemc.Fault{Kind: fakemc.FStatus, Status: st})
	}
	fs = append(fs, fakemc.Fault{Kind: fakemc.FCloseBefore}, fakemc.Fault{Kind: fakemc.FCloseAfterProc})
	for _, k := range []int{1, 23, 24, 25, 40} {
		fs = append(fs, fakemc.Fault{Kind: fakemc.FCloseAfterBytes, K: k})
	}
	fs = append(fs, fakemc.Fault{Kind: fakemc.FCloseAfterReply})
	return fs
}

func runC10(c *rt.Ctx) {
	var cfgs []Cfg
	for _, o := range []string{"l1only", "l1l2", "l1l2b"} {
		for _, h := range []string{"std", "chunked"} {
			for _, p := range []string{"binary", "text"} {
				cfgs = append(cfgs, Cfg{Orca: o, Lock: "none", Proto: p, L1H: h})
			}
		}
	}
	cfgs = append(cfgs, Cfg{Orca: "l1l2", Lock: "single", Proto: "binary", L1H: "std"},
		// the locking wrapper splits multi-key gets and steers the terminator: a fault in the middle of
		// one must not leave anything behind for the next request (text: every get ends in END)
		Cfg{Orca: "l1l2", Lock: "multi", Proto: "text", L1H: "std"}, Cfg{Orca: "l1only", Lock: "single", Proto: "text", L1H: "std"},
		Cfg{Orca: "l1l2b", Lock: "multi", Proto: "binary", L1H: "std"})
	faults := allFaults()
	item := 0
	for _, cfg := range cfgs {
		for _, port := range cfg.Ports() {
			for _, prior := range []string{"absent", "both", "l2only", "own"} {
				if prior == "l2only" && cfg.Orca == "l1only" {
					continue
				}
				if prior == "own" && (port != 0 || (cfg.Proto == "text" && !c.Thorough())) {
					continue
				}
				for _, cmd := range faultCmds(cfg) {
					item++
					if !c.Mine(item) {
						continue
					}
					if c.Expired() {
						return
					}
					cmd.Port = port
					base := FaultScenario{Cfg: cfg, Prior: prior, Cmd: cmd}
					var n1, n2 int
					var fs0 []Finding
					NoBubble(func() { fs0, _, n1, n2 = RunFault(base) })
					c.Eval(1)
					for _, f := range fs0 {
						c.Violation(f.Sig, f.What, base)
					}
					var devs []Dev
					for tier, n := range []int{n1, n2} {
						for idx := 0; idx < n; idx++ {
							for _, f := range faults {
								devs = append(devs, Dev{Tier: tier + 1, Idx: idx, Fault: f})
							}
						}
					}
					runOne := func(ds []Dev) {
						sc := base
						sc.Devs = ds
						c.Crumb(fmt.Sprintf("op=%s cfg=%s", opTag(cmd), cfgClass(cfg)), sc)
						var fs []Finding
						var tr string
						NoBubble(func() { fs, tr, _, _ = RunFault(sc) })
						c.Eval(1)
						c.Trace(1)
						key := fmt.Sprintf("%s|%d|%s|%s|%+v", cfg, port, prior, opTag(cmd), ds)
						c.Distinct(key)
						if ds[0].Idx > 0 || ds[0].Tier == 2 {
							c.Nontrivial(key) // the fault hits after part of the command has taken effect
						}
						if item%29 == 0 && ds[0].Idx == 1 && ds[0].Fault.Kind == fakemc.FCloseAfterProc {
							c.Sample(map[string]interface{}{"trace": tr})
						}
						for _, f := range fs {
							c.Violation(f.Sig, f.What+"\n"+tr, sc)
						}
					}
					for _, d := range devs {
						runOne([]Dev{d})
					}
					if c.Thorough() {
						// deviation bound 2: after a first error status, a second fault on any later
						// request of the *faulted* run (which includes compensation requests that a
						// fault-free run never sends)
						thin := []fakemc.Fault{{Kind: fakemc.FStatus, Status: 0x82}, {Kind: fakemc.FStatus, Status: 0x85}, {Kind: fakemc.FCloseAfterProc}, {Kind: fakemc.FCloseBefore}}
						for _, d1 := range devs {
							if d1.Fault.Kind != fakemc.FStatus || (d1.Fault.Status != 0x82 && d1.Fault.Status != 0x01) {
								continue
							}
							sc1 := base
							sc1.Devs = []Dev{d1}
							var m1, m2 int
							NoBubble(func() { _, _, m1, m2 = RunFault(sc1) })
							for tier, n := range []int{m1, m2} {
								for idx := 0; idx < n; idx++ {
									if tier+1 == d1.Tier && idx <= d1.Idx {
										continue
									}
									for _, f := range thin {
										runOne([]Dev{d1, {Tier: tier + 1, Idx: idx, Fault: f}})
									}
								}
							}
						}
					}
				}
			}
		}
	}
	c.Set("fault_kinds", len(faults))
}
