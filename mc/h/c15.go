package h

import (
	"fmt"
	"github.com/netflix/rend/verifshim/vsync"
	"net"
	"runtime"
	"strings"
	"sync"
	"testing/synctest"
	"time"

	"github.com/netflix/rend/handlers"
	"github.com/netflix/rend/handlers/memcached/chunked"
	"github.com/netflix/rend/handlers/memcached/std"
	"github.com/netflix/rend/metrics"
	"github.com/netflix/rend/orcas"
	"github.com/netflix/rend/protocol"
	"github.com/netflix/rend/protocol/binprot"
	"github.com/netflix/rend/protocol/textprot"
	"github.com/netflix/rend/server"

	"verif/fakemc"
	"verif/rt"
	"verif/sched"
	"verif/wire"
)

func init() {
	rt.Register("C15", rt.Harness{Run: runC15})
}

// deployment is one running server.ListenAndServe over fake backends with an in-memory listener.
type deployment struct {
	idle  time.Duration // client stays silent this long before disconnecting
	cfg   Cfg
	port  int
	l     *memListener
	l1    *fakemc.Store
	l2    *fakemc.Store
	mu    sync.Mutex
	conns []*fakemc.Conn
	slot  uint32
	// problems: what the real main program did that the harness did not expect (app deployments)
	problems func() []string
}

func startDeployment(cfg Cfg, port int) *deployment {
	if cfg.App {
		// the whole program: flags -> main -> listeners -> accept loop -> handler constructors
		w := NewWorld(cfg)
		d := &deployment{cfg: cfg, port: port, l1: w.L1, l2: w.L2, slot: appLockSlot}
		w.ConnHook = func(tier int, c *fakemc.Conn) {
			c.Async = true
			d.mu.Lock()
			d.conns = append(d.conns, c)
			d.mu.Unlock()
		}
		w.startApp()
		d.l = &memListener{conns: w.app.lst[port].ch}
		d.problems = func() []string { return w.app.Problems }
		return d
	}
	d := &deployment{cfg: cfg, port: port, l: &memListener{conns: make(chan net.Conn)}, l1: fakemc.NewStore("L1"), l2: fakemc.NewStore("L2")}
	mk := func(st *fakemc.Store, kind string) handlers.HandlerConst {
		return func() (handlers.Handler, error) {
			c := fakemc.NewConn(st, st.Name)
			c.Async = true
			d.mu.Lock()
			d.conns = append(d.conns, c)
			d.mu.Unlock()
			if kind == "chunked" {
				return chunked.NewHandler(c), nil
			}
			return std.NewHandler(c), nil
		}
	}
	h1 := mk(d.l1, cfg.L1H)
	h2 := handlers.NilHandler
	var oc orcas.OrcaConst
	switch {
	case cfg.Orca == "l1only":
		oc = orcas.L1Only
	case port == 1:
		oc = orcas.L1L2Batch
		h2 = mk(d.l2, "std")
	default:
		oc = orcas.L1L2
		h2 = mk(d.l2, "std")
	}
	if cfg.Lock != "none" {
		var main orcas.OrcaConst
		main, d.slot = lockedMain(cfg.Orca, cfg.Lock == "multi", cfg.Conc)
		if port == 1 {
			oc = orcas.LockedWithExisting(oc, d.slot)
		} else {
			oc = main
		}
	}
	go server.ListenAndServe(func() (server.Listener, error) { return d.l, nil },
		[]protocol.Components{binprot.Components, textprot.Components}, server.Default, oc, h1, h2)
	return d
}

// locksHeld reports stripes of the deployment's lock set that are still locked.
func (d *deployment) locksHeld() []int {
	if d.cfg.Lock == "none" {
		return nil
	}
	w, _ := orcas.VerifLockSet(d.slot)
	var held []int
	for i, l := range w {
		type tl interface{ TryLock() bool }
		if t, ok := l.(tl); ok {
			if t.TryLock() {
				l.Unlock()
			} else {
				held = append(held, i)
			}
		}
	}
	return held
}

// forceRelease unlocks whatever the deployment's lock set still holds (after a leak was reported).
func (d *deployment) forceRelease() {
	if d.cfg.Lock == "none" {
		return
	}
	w, _ := orcas.VerifLockSet(d.slot)
	for _, l := range w {
		switch m := l.(type) {
		case *sync.Mutex:
			for !m.TryLock() {
				m.Unlock()
			}
			m.Unlock()
		case *sync.RWMutex:
			for !m.TryLock() {
				if m.TryRLock() { // held by readers
					m.RUnlock()
					m.RUnlock()
				} else {
					m.Unlock()
				}
			}
			m.Unlock()
		}
	}
}

func (d *deployment) openBackendConns(from int) (open []string) {
	d.mu.Lock()
	defer d.mu.Unlock()
	for _, c := range d.conns[from:] {
		if !c.LocalClosed {
			open = append(open, c.Name)
		}
	}
	return
}

type disconnectCase struct {
	Cfg    Cfg    `json:"cfg"`
	Port   int    `json:"port"`
	Stream []byte `json:"stream"`
	Cut    int    `json:"cut"`
	Tag    string `json:"tag"`
}

func runC15(c *rt.Ctx) {
	var cfgs []Cfg
	for _, o := range []string{"l1only", "l1l2", "l1l2b"} {
		for _, l := range []string{"none", "multi", "single"} {
			for _, h := range []string{"std", "chunked"} {
				if l == "multi" && h == "chunked" {
					continue
				}
				cfgs = append(cfgs, Cfg{Orca: o, Lock: l, L1H: h})
			}
		}
	}
	// deployments started by the real main program (handler constructors and listeners included)
	cfgs = append(cfgs, Cfg{Orca: "l1only", Lock: "none", L1H: "std", App: true}, Cfg{Orca: "l1l2b", Lock: "multi", L1H: "std", App: true, Conc: 2},
		Cfg{Orca: "l1l2b", Lock: "single", L1H: "chunked", App: true, Conc: 2})
	type work struct {
		cfg  Cfg
		port int
	}
	var works []work
	for _, cfg := range cfgs {
		for _, p := range cfg.Ports() {
			works = append(works, work{cfg, p})
		}
	}
	// the whole shard runs in one bubble: server.ListenAndServe's accept loop has no shutdown path
	leaked, other := sched.Bubble(c.T, func() {
		for wi, wk := range works {
			if !c.Mine(wi) {
				continue
			}
			d := startDeployment(wk.cfg, wk.port)
			synctest.Wait()
			for _, proto := range []string{"binary", "text"} {
				reps := repOps(proto)
				var streams [][]wire.Op
				for _, r := range reps {
					streams = append(streams, []wire.Op{r})
				}
				for i := range reps {
					if c.Thorough() {
						// every ordered pair of representative requests
						for j := range reps {
							streams = append(streams, []wire.Op{reps[i], reps[j]})
						}
						continue
					}
					streams = append(streams, []wire.Op{reps[i], reps[(i+3)%len(reps)]})
				}
				streams = append(streams, []wire.Op{{Kind: "quit"}}, []wire.Op{{Kind: "set", Key: "k", Val: "v"}, {Kind: "quit"}})
				// multi-key gets that hit (several values have to be written back)
				bin := proto == "binary"
				big := string(wire.GenValue(5000, 3))
				if !bin {
					big = strings.Repeat("v", 5000)
				}
				streams = append(streams,
					[]wire.Op{{Kind: "set", Key: "a", Val: "va"}, {Kind: "set", Key: "b", Val: "vb"}, {Kind: "mget", Keys: []string{"a", "b", "a"}, Quiet: []bool{bin, bin, false}}},
					[]wire.Op{{Kind: "set", Key: "a", Val: big}, {Kind: "mget", Keys: []string{"a", "nope", "a", "a"}, Quiet: []bool{bin, bin, bin, false}}})
				if proto == "binary" {
					streams = append(streams, []wire.Op{{Kind: "quit", QuietW: true}})
				} else {
					// clients that speak neither protocol (first byte neither 0x80 nor a lower-case letter):
					// a blank line, an HTTP probe, a TLS hello, a binary *response* frame, digits; and a line
					// that never ends
					for _, raw := range []string{"\r\n", "GET foo\r\n", "HEAD / HTTP/1.0\r\n\r\n", "\x16\x03\x01\x00\x05hello", "\x81\x00\x00\x00\x00\x00\x00\x00\x00\x00\x00\x00\x00\x00\x00\x00\x00\x00\x00\x00\x00\x00\x00\x00", "123 abc\r\n", " get a\r\n"} {
						streams = append(streams, []wire.Op{{Kind: "raw", Raw: []byte(raw)}})
					}
					streams = append(streams, []wire.Op{{Kind: "raw", Raw: []byte("get " + strings.Repeat("k", 70000))}})
				}
				for _, ops := range streams {
					var stream []byte
					tag := proto + ":"
					for i := range ops {
						ops[i].Opaque = uint32(0x100 + 16*i)
						stream = append(stream, wire.Encode(proto, ops[i])...)
						tag += opTag(ops[i]) + ","
					}
					var cuts []int
					if len(stream) <= 6000 {
						for cut := 0; cut <= len(stream); cut++ {
							cuts = append(cuts, cut)
						}
					} else {
						// a very long stream: the offsets around the buffer sizes on the way
						for _, b := range []int{0, 4096, 8192, 65536, 69632, len(stream) - 1} {
							for d := -1; d <= 1; d++ {
								if k := b + d; k >= 0 && k <= len(stream) {
									cuts = append(cuts, k)
								}
							}
						}
					}
					for _, cut := range cuts {
						if c.Expired() {
							return
						}
						dc := disconnectCase{Cfg: wk.cfg, Port: wk.port, Stream: stream, Cut: cut, Tag: tag}
						c.Crumb("tag="+tag, dc)
						clause, detail := d.runDisconnect(proto, stream, cut, false)
						c.Eval(1)
						c.Trace(1)
						if clause == "" && cut > 0 {
							// the client is already gone when the server writes its reply
							clause, detail = d.runDisconnectMode(proto, stream, cut, false, true)
							c.Eval(1)
							c.Trace(1)
							if clause != "" {
								clause += "/client-gone-before-reply"
							}
						}
						if clause == "" && (cut == 0 || cut == len(stream)/2) {
							// the client idles for an hour at this offset, then goes away (timers on the
							// accept / read path must not leave anything behind either)
							d.idle = time.Hour
							clause, detail = d.runDisconnect(proto, stream, cut, false)
							d.idle = 0
							c.Eval(1)
							c.Trace(1)
							if clause != "" {
								clause += "/after-idling"
							}
						}
						if clause == "" {
							// the same disconnect while a second client, accepted after this one,
							// is connected: only this client's resources may be released
							clause, detail = d.runDisconnect(proto, stream, cut, true)
							c.Eval(1)
							c.Trace(1)
							if clause != "" {
								clause += "/with-second-client"
							}
						}
						if dp := vsync.TakeDoublePuts(); len(dp) > 0 && clause == "" {
							clause, detail = "pooled-object-put-twice", "the disconnect left a pooled object in its pool twice (two later connections will share it): "+dp[0]
						}
						key := fmt.Sprintf("%s|%d|%s|%d", wk.cfg, wk.port, tag, cut)
						c.Distinct(key)
						if cut > 0 && cut < len(stream) {
							c.Nontrivial(key) // the client goes away in the middle of the stream
						}
						if clause != "" {
							where := "mid-stream"
							if cut == 0 {
								where = "before-first-byte"
							} else if cut == len(stream) {
								where = "after-last-byte"
							}
							c.Violation(fmt.Sprintf("C15 %s cfg=%s port=%d proto=%s first=%s at=%s", clause, cfgClass(Cfg{Orca: wk.cfg.Orca, Lock: wk.cfg.Lock, Proto: proto, L1H: wk.cfg.L1H}), wk.port, proto, opTag(ops[0]), where),
								fmt.Sprintf("stream %q cut after %d bytes: %s", stream, cut, detail), dc)
						}
						if strings.HasPrefix(clause, "lock-left-held") {
							// reported; release the leaked locks so that the remaining cases of this
							// deployment can run (anything touching the stripe would block for good)
							d.forceRelease()
						}
						if cut == len(stream)/2 && len(ops) == 2 && wi%5 == 0 {
							c.Sample(map[string]interface{}{"cfg": wk.cfg.String(), "port": wk.port, "stream": fmt.Sprintf("%q", stream), "cut_after_bytes": cut})
						}
					}
				}
			}
		}
	})
	_ = leaked // the accept loops stay parked by design
	if other != nil {
		panic(other)
	}
}

// runDisconnect connects, sends the first cut bytes, closes, and checks that everything held for
// the connection is released; then a fresh client must be served normally.
func (d *deployment) runDisconnect(proto string, stream []byte, cut int, overlap bool) (clause, detail string) {
	return d.runDisconnectMode(proto, stream, cut, overlap, false)
}

// runDisconnectMode: gone=true makes the client disappear right after sending the prefix, before
// the server has had a chance to write any reply (its writes then fail with EPIPE).
func (d *deployment) runDisconnectMode(proto string, stream []byte, cut int, overlap, gone bool) (clause, detail string) {
	synctest.Wait()
	base := runtime.NumGoroutine()
	regs := metrics.VerifRegistrySizes()
	locksets := orcas.VerifSwapLockCursor(0)
	orcas.VerifSwapLockCursor(locksets)
	d.mu.Lock()
	from := len(d.conns)
	d.mu.Unlock()
	cli := NewClient()
	d.l.conns <- cli
	synctest.Wait()
	d.mu.Lock()
	mine := len(d.conns) - from // backend connections opened for this client
	d.mu.Unlock()
	var other *Client
	if overlap {
		other = NewClient()
		d.l.conns <- other
		synctest.Wait()
	}
	if cut > 0 && gone {
		cli.GoAway()
		cli.Feed(stream[:cut])
		synctest.Wait()
	} else if cut > 0 {
		// two segments when possible so that the server has to resume a partial read
		if cut > 3 {
			cli.Feed(stream[:cut/2])
			synctest.Wait()
			cli.Feed(stream[cut/2 : cut])
		} else {
			cli.Feed(stream[:cut])
		}
		synctest.Wait()
	}
	if d.idle > 0 {
		// the client stays connected and silent for a long (virtual) time before it goes away
		time.Sleep(d.idle)
		synctest.Wait()
	}
	cli.End()
	synctest.Wait()
	// checked first: anybody touching a stripe that stayed locked would block for good
	if h := d.locksHeld(); len(h) > 0 {
		return "lock-left-held", fmt.Sprintf("stripes %v still locked after the client went away", h)
	}
	if overlap {
		// this client's backend connections are closed, the other client's are not
		d.mu.Lock()
		var leftOpen, wronglyClosed []string
		for i, bc := range d.conns[from:] {
			if i < mine && !bc.LocalClosed {
				leftOpen = append(leftOpen, bc.Name)
			}
			if i >= mine && bc.LocalClosed {
				wronglyClosed = append(wronglyClosed, bc.Name)
			}
		}
		d.mu.Unlock()
		if len(leftOpen) > 0 {
			return "backend-conn-left-open", fmt.Sprintf("backend connections opened for the disconnected client and not closed: %v", leftOpen)
		}
		if len(wronglyClosed) > 0 || other.Closed() {
			return "other-client-disturbed", fmt.Sprintf("the disconnect of one client closed resources of another: backend conns %v, its client conn closed=%v", wronglyClosed, other.Closed())
		}
		ops := []wire.Op{{Kind: "set", Key: "o", Val: "other", Flags: 3, Opaque: 0x700}, {Kind: "get", Key: "o", Opaque: 0x710}}
		var b []byte
		for _, o := range ops {
			b = append(b, wire.Encode(proto, o)...)
		}
		other.Feed(b)
		synctest.Wait()
		var reps []wire.Reply
		if proto == "text" {
			reps, _ = wire.DecodeText(other.Out, ops)
		} else {
			reps, _, _ = wire.DecodeBinary(other.Out, ops)
		}
		other.End()
		synctest.Wait()
		if reps[0].Class != "ok" || reps[1].Class != "values" || len(reps[1].Hits) != 1 || reps[1].Hits[0].Val != "other" {
			return "other-client-disturbed", fmt.Sprintf("the client that stayed connected got %s | %s", reps[0].Canon(), reps[1].Canon())
		}
	}
	if open := d.openBackendConns(from); len(open) > 0 {
		return "backend-conn-left-open", fmt.Sprintf("backend connections opened for the client and not closed: %v", open)
	}
	if now := metrics.VerifRegistrySizes(); now != regs {
		return "registry-slot-leak", fmt.Sprintf("slots taken in the metrics registries (counters, histograms, int/float gauges, int/float callbacks, bulk callbacks) before the connection %v, after it ended %v: the tables are of fixed size, a process that loses a slot per connection ends with a panic", regs, now)
	}
	if now := orcas.VerifSwapLockCursor(locksets); now != locksets {
		return "registry-slot-leak", fmt.Sprintf("lock sets handed out before the connection %d, after it ended %d (1024 exist)", locksets, now)
	}
	if n := runtime.NumGoroutine(); n != base {
		return "goroutine-leak", fmt.Sprintf("%d goroutines before the connection, %d after it ended", base, n)
	}
	if h := d.locksHeld(); len(h) > 0 {
		return "lock-left-held", fmt.Sprintf("stripes %v still locked", h)
	}
	if !cli.Closed() {
		return "client-conn-not-closed", "the server did not close its side of the client connection"
	}
	if d.problems != nil {
		if p := d.problems(); len(p) > 0 {
			return "deployment", fmt.Sprintf("the main program did something the harness has no counterpart for: %v", p)
		}
	}
	// the server keeps accepting: a fresh client is served correctly on the same keys
	c2 := NewClient()
	d.l.conns <- c2
	synctest.Wait()
	ops := []wire.Op{{Kind: "set", Key: "k", Val: "fresh", Flags: 3, Opaque: 0x900}, {Kind: "get", Key: "k", Opaque: 0x910}}
	var b []byte
	for _, o := range ops {
		b = append(b, wire.Encode(proto, o)...)
	}
	c2.Feed(b)
	synctest.Wait()
	var reps []wire.Reply
	if proto == "text" {
		reps, _ = wire.DecodeText(c2.Out, ops)
	} else {
		reps, _, _ = wire.DecodeBinary(c2.Out, ops)
	}
	c2.End()
	synctest.Wait()
	if reps[0].Class != "ok" || reps[1].Class != "values" || len(reps[1].Hits) != 1 || reps[1].Hits[0].Val != "fresh" {
		return "fresh-client-not-served", fmt.Sprintf("a new client got %s | %s", reps[0].Canon(), reps[1].Canon())
	}
	return "", ""
}
