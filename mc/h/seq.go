package h

import (
	"fmt"
	"github.com/netflix/rend/handlers/memcached/chunked"
	"github.com/netflix/rend/verifshim/vsync"
	"testing"
	"time"
	"verif/fakemc"

	"verif/refmodel"
	"verif/rt"
	"verif/sched"
	"verif/wire"
)

// SeqScenario is a sequential history: commands issued one at a time on persistent connections
// (one per port), interleaved with environment events (evict, advance).
type SeqScenario struct {
	Harness string    `json:"harness"`
	Cfg     Cfg       `json:"cfg"`
	Ops     []wire.Op `json:"ops"`
	// Fresh: issue every command on a fresh connection instead of a persistent one.
	Fresh bool `json:"fresh,omitempty"`
}

// Finding is one oracle failure in an execution.
type Finding struct {
	Sig    string
	What   string
	OpIdx  int
	Clause string
}

// SeqResult is what one execution produced.
type SeqResult struct {
	Findings []Finding
	StateKey string
	Replies  []string
	HitSeen  bool
	FailSeen bool
	MaxVal   int // longest value held by the model at the end
	// LastDependsOnState: the last command's reply carried a value or a refusal.
	LastDependsOnState bool
}

// SeqOpts tunes RunSeq.
type SeqOpts struct {
	CheckSubset bool // C02 invariant: every L1 entry is in L2 with the same value and flags
	NoModel     bool
	// ExtraCheck runs after every command with the world and model.
	ExtraCheck func(w *World, m *refmodel.Model, opIdx int, op wire.Op, hist []wire.Op) (clause, detail string)
	// StateKey overrides the canonical state rendering.
	StateKey func(w *World, m *refmodel.Model) string
	// Setup is applied to the fresh world before the first command.
	Setup func(w *World)
}

func cfgClass(c Cfg) string {
	l := "nolock"
	if c.Lock != "none" {
		l = "locked"
	}
	return fmt.Sprintf("%s/%s/%s/l1=%s", c.Orca, l, c.Proto, c.L1H)
}

// InBubble runs f inside a synctest bubble (virtual clock starting 2000-01-01) on a child
// goroutine so that runtime.Goexit in f is harmless.
func InBubble(t *testing.T, f func()) {
	if curKeeper != nil {
		// already inside the one bubble of a search that keeps its pool (bubbles do not nest)
		NoBubble(f)
		return
	}
	// goroutines of a batching pool stay parked when the execution ends; sched.Bubble tolerates that
	_, other := sched.Bubble(t, func() {
		done := make(chan struct{})
		go func() {
			defer close(done)
			f()
		}()
		<-done
	})
	if other != nil {
		panic(other)
	}
}

// NoBubble runs f on a child goroutine (so that runtime.Goexit in f is harmless) with the real
// clock. Used where time does not matter and executions may legitimately leave parked goroutines.
func NoBubble(f func()) {
	done := make(chan struct{})
	go func() {
		defer close(done)
		f()
	}()
	<-done
}

// RunSeq executes the scenario against a fresh world and compares every reply with the model.
// It must be called inside a bubble when ops contain "advance" or non-zero TTLs matter.
// doublePut drains the pool shim's log: a pooled object returned to a pool it was already in will
// be handed to two users (of possibly different connections) later on.
func doublePut(harness string) *Finding {
	dp := vsync.TakeDoublePuts()
	if len(dp) == 0 {
		return nil
	}
	return &Finding{Sig: harness + " pooled-object-put-twice", What: "a pooled object was returned to its pool while already in it; two later users will share it: " + dp[0], Clause: "pooled-object-put-twice"}
}

func RunSeq(sc SeqScenario, o SeqOpts) *SeqResult {
	res := &SeqResult{}
	vsync.TakeDoublePuts()
	defer func() {
		if f := doublePut(sc.Harness); f != nil {
			res.Findings = append(res.Findings, *f)
		}
	}()
	ops := sc.Ops
	if curKeeper != nil {
		// executions sharing one bubble start on a whole (virtual) second, as those with a bubble of
		// their own do: relative expiry times in state keys must not depend on the phase of the clock
		now := time.Now()
		time.Sleep(now.Truncate(time.Second).Add(time.Second).Sub(now))
		// ... and absolute expiry times in the alphabets are meant relative to the start of the
		// execution (a bubble of its own starts at bubbleEpoch)
		shift := uint32(time.Now().Unix() - bubbleEpoch)
		ops = append([]wire.Op{}, sc.Ops...)
		for i := range ops {
			if ops[i].TTL > 30*24*3600 {
				ops[i].TTL += shift
			}
		}
	}
	w := NewWorld(sc.Cfg)
	w.SeqGuard = true
	defer w.Release()
	if o.Setup != nil {
		o.Setup(w)
	}
	m := refmodel.New(uint32(time.Now().Unix()))
	sess := map[int]*Session{}
	type pend struct {
		s   *Session
		idx int // index in session ops
		op  int // index in scenario ops
		e   Expect
	}
	var pends []pend
	add := func(i int, clause, what string, op wire.Op, exp, got string) {
		res.Findings = append(res.Findings, Finding{
			Sig:    fmt.Sprintf("%s %s op=%s cfg=%s exp=%s got=%s", sc.Harness, clause, op.Kind, cfgClass(sc.Cfg), exp, got),
			What:   fmt.Sprintf("op %d (%s): %s", i, op, what),
			OpIdx:  i,
			Clause: clause,
		})
	}
	var all []*Session
	for i, op := range ops {
		switch op.Kind {
		case "evict":
			if sc.Cfg.L1H == "chunked" {
				for _, k := range w.L1.Keys() {
					if ck, _, ok := ownerOf(k); ok && ck == op.Key {
						w.L1.Evict(k)
					}
				}
			} else {
				w.L1.Evict(op.Key)
			}
			continue
		case "evict-entry": // one backend entry, named by its backend key
			w.L1.Evict(op.Key)
			continue
		case "advance":
			time.Sleep(time.Duration(op.Sec) * time.Second)
			m.Now = uint32(time.Now().Unix())
			continue
		}
		s := sess[op.Port]
		if s == nil || sc.Fresh {
			s = w.Connect(op.Port)
			sess[op.Port] = s
			all = append(all, s)
		}
		op.Opaque = uint32(0x1000 + 16*len(s.Ops))
		if i%3 == 2 {
			op.Opaque |= 0xfffe0000 // opaques are the client's to choose: high bits set, too
		}
		m.Now = uint32(time.Now().Unix())
		var e Expect
		if !o.NoModel {
			e = ApplyModel(m, sc.Cfg.Proto, op)
		}
		if op.Gone {
			// the reply cannot be delivered: the server ends this connection; what the command did to
			// the tiers must be as complete as if the client had stayed
			s.Cli.GoAway()
			s.Do(op)
			sess[op.Port] = nil
		} else {
			s.Do(op)
			pends = append(pends, pend{s, len(s.Ops) - 1, i, e})
		}
		if s.Ended && !op.Gone {
			add(i, "connection-closed", "server ended the connection", op, e.Class, "closed")
			break
		}
		if o.CheckSubset && sc.Cfg.L1H == "chunked" {
			// what the chunked L1 would serve (read through a handler over a copy) must be L2's
			seenKey := map[string]bool{}
			for _, bk := range w.L1.Keys() {
				ck, _, ok := ownerOf(bk)
				if !ok || seenKey[ck] {
					continue
				}
				seenKey[ck] = true
				r := CallHandler(chunked.NewHandler(fakemc.NewConn(w.L1.Clone(), "subset")), wire.Op{Kind: "get", Key: ck})
				b := w.L2.Lookup(ck)
				if len(r.Hits) == 1 && (b == nil || r.Hits[0].Val != string(b.Val) || r.Hits[0].Flags != b.Flags) {
					add(i, "l1-not-subset-of-l2", fmt.Sprintf("after the command the chunked L1 serves %q=%q/%x but L2 holds %v", ck, r.Hits[0].Val, r.Hits[0].Flags, b), op, "subset", "differs")
				}
			}
		} else if o.CheckSubset {
			for _, k := range w.L1.Keys() {
				a := w.L1.M[k]
				b := w.L2.Lookup(k)
				if b == nil || string(a.Val) != string(b.Val) || a.Flags != b.Flags {
					add(i, "l1-not-subset-of-l2", fmt.Sprintf("after the command L1 holds %q=%q/%x but L2 holds %v", k, a.Val, a.Flags, b), op, "subset", "differs")
				}
			}
		}
		if o.ExtraCheck != nil {
			if c, d := o.ExtraCheck(w, m, i, op, ops[:i+1]); c != "" {
				add(i, c, d, op, "-", "-")
			}
		}
	}
	for _, s := range all {
		s.Hangup()
		if s.Panics != nil {
			res.Findings = append(res.Findings, Finding{Sig: sc.Harness + " panic-escaped cfg=" + cfgClass(sc.Cfg), What: fmt.Sprint(s.Panics), Clause: "panic"})
		}
	}
	if !o.NoModel {
		decoded := map[*Session][]wire.Reply{}
		for _, s := range all {
			reps, stray, mal := s.Replies()
			decoded[s] = reps
			if mal != "" {
				res.Findings = append(res.Findings, Finding{Sig: fmt.Sprintf("%s malformed-stream cfg=%s", sc.Harness, cfgClass(sc.Cfg)), What: mal, Clause: "malformed-stream"})
			}
			if stray != 0 {
				res.Findings = append(res.Findings, Finding{Sig: fmt.Sprintf("%s stray-reply cfg=%s", sc.Harness, cfgClass(sc.Cfg)), What: fmt.Sprintf("%d reply frames/bytes not attributable to any request; stream %q", stray, s.Cli.Out), Clause: "stray-reply"})
			}
		}
		for _, p := range pends {
			r := decoded[p.s][p.idx]
			res.Replies = append(res.Replies, r.Canon())
			if len(r.Hits) > 0 {
				res.HitSeen = true
			}
			if r.Class == "refused" || r.Misses > 0 {
				res.FailSeen = true
			}
			res.LastDependsOnState = len(r.Hits) > 0 || r.Class == "refused" || r.Misses > 0
			if c, d := Diff(ops[p.op], p.e, r); c != "" {
				add(p.op, c, d, ops[p.op], p.e.Class, r.Class)
			}
		}
	}
	if t := w.LockTrouble(); t != "" {
		res.Findings = append(res.Findings, Finding{Sig: fmt.Sprintf("%s key-lock-never-granted cfg=%s", sc.Harness, cfgClass(sc.Cfg)), What: t, Clause: "lock"})
	}
	hung, spun, bad, residue := w.Diag()
	if hung {
		res.Findings = append(res.Findings, Finding{Sig: fmt.Sprintf("%s backend-read-hang cfg=%s", sc.Harness, cfgClass(sc.Cfg)), What: "a handler waited for backend bytes that can never arrive", Clause: "hang"})
	}
	if spun {
		res.Findings = append(res.Findings, Finding{Sig: fmt.Sprintf("%s backend-spin cfg=%s", sc.Harness, cfgClass(sc.Cfg)), What: "a handler kept reading a closed backend connection", Clause: "spin"})
	}
	if bad {
		res.Findings = append(res.Findings, Finding{Sig: fmt.Sprintf("%s backend-garbage cfg=%s", sc.Harness, cfgClass(sc.Cfg)), What: "a handler sent bytes that are not a request frame", Clause: "garbage"})
	}
	if residue != 0 {
		res.Findings = append(res.Findings, Finding{Sig: fmt.Sprintf("%s backend-residue cfg=%s", sc.Harness, cfgClass(sc.Cfg)), What: fmt.Sprintf("%d unread/partial bytes left on backend connections: stream out of sync", residue), Clause: "residue"})
	}
	for _, e := range m.M {
		if len(e.Val) > res.MaxVal {
			res.MaxVal = len(e.Val)
		}
	}
	if o.StateKey != nil {
		res.StateKey = o.StateKey(w, m)
	} else {
		l1 := w.L1.Dump()
		if sc.Cfg.L1H == "chunked" {
			l1 = chunkDump(w.L1)
		}
		if sc.Cfg.L1H == "inmem" {
			l1 = InmemSnapshot()
		}
		res.StateKey = "M:" + m.Dump() + "|L1:" + l1 + "|L2:" + w.L2.Dump()
	}
	return res
}

// BFS explores all histories over the alphabet from the empty world, deduplicating by state key.
// alphabet is ordered simplest-first. Returns states and transitions explored.
type BFSOpts struct {
	MaxDepth  int
	MaxStates int
	MaxValLen int // histories that grow a value beyond this are checked but not expanded
	// Shard: all workers run the (cheap) upper levels, the transitions of the last level are
	// dealt to the workers; states are then counted as the union of StateKey over workers.
	Shard  bool
	Item   int
	Bubble bool
	// Fresh: every command of every history arrives on a connection of its own
	Fresh bool
	Seq   SeqOpts
	// OnExec sees every executed history (after the oracle ran).
	OnExec func(sc SeqScenario, r *SeqResult)
}

func BFS(c *rt.Ctx, harness string, cfg Cfg, alphabet []wire.Op, bo BFSOpts) (states, trans int, complete bool) {
	if bo.Bubble && cfg.L1H == "batched" && !cfg.App && curKeeper == nil {
		// see poolKeeper: one bubble and one pool for the whole search
		InBubble(c.T, func() {
			release := KeepPool()
			defer release()
			states, trans, complete = BFS(c, harness, cfg, alphabet, bo)
		})
		return
	}
	run := func(sc SeqScenario) *SeqResult {
		var r *SeqResult
		if bo.Bubble {
			InBubble(c.T, func() { r = RunSeq(sc, bo.Seq) })
		} else {
			done := make(chan struct{})
			go func() { defer close(done); r = RunSeq(sc, bo.Seq) }()
			<-done
		}
		return r
	}
	root := run(SeqScenario{Harness: harness, Cfg: cfg, Fresh: bo.Fresh})
	seen := map[string]bool{root.StateKey: true}
	type fnode struct {
		ops []wire.Op
		key string
	}
	frontier := []fnode{{nil, root.StateKey}}
	states = 1
	complete = true
	for depth := 0; len(frontier) > 0; depth++ {
		if bo.MaxDepth > 0 && depth >= bo.MaxDepth {
			complete = false
			break
		}
		var next []fnode
		lastLevel := bo.MaxDepth > 0 && depth == bo.MaxDepth-1
		for fi, fn := range frontier {
			hist := fn.ops
			if c.Expired() {
				return states, trans, false
			}
			for ei, ev := range alphabet {
				mine := !bo.Shard || c.Mine(bo.Item+fi*len(alphabet)+ei)
				if !mine && lastLevel {
					continue
				}
				ops := append(append([]wire.Op{}, hist...), ev)
				sc := SeqScenario{Harness: harness, Cfg: cfg, Ops: ops, Fresh: bo.Fresh}
				r := run(sc)
				if mine {
					trans++
					c.Eval(1)
					c.Trace(1)
					if bo.OnExec != nil {
						bo.OnExec(sc, r)
					}
				}
				if len(r.Findings) > 0 {
					if mine {
						for _, f := range r.Findings {
							c.Violation(f.Sig, f.What, sc)
						}
					}
					continue // do not expand past a violating transition
				}
				if bo.MaxValLen > 0 && r.MaxVal > bo.MaxValLen {
					continue
				}
				if n := len(r.Replies); mine && n > 0 && r.LastDependsOnState {
					// a transition whose reply depends on the state it was taken from
					c.Nontrivial(cfg.String() + "|" + fn.key + "|" + ev.String())
				}
				if !seen[r.StateKey] {
					seen[r.StateKey] = true
					states++
					if bo.Shard {
						if !mine {
							next = append(next, fnode{ops, r.StateKey})
							continue
						}
						c.StateKey(cfg.String() + "|" + r.StateKey)
					}
					c.Distinct(cfg.String() + "|" + r.StateKey)
					if states <= 3 || (states%997 == 0) {
						c.Sample(map[string]interface{}{"cfg": cfg.String(), "history": opsStrings(ops), "replies": r.Replies, "state": r.StateKey})
					}
					if bo.MaxStates > 0 && states >= bo.MaxStates {
						c.Cap(fmt.Sprintf("state cap %d reached for %s", bo.MaxStates, cfg))
						return states, trans, false
					}
					next = append(next, fnode{ops, r.StateKey})
				}
			}
		}
		frontier = next
	}
	return states, trans, complete
}

func opsStrings(ops []wire.Op) []string {
	out := make([]string, len(ops))
	for i, o := range ops {
		out[i] = o.String()
	}
	return out
}
