package h

import (
	"encoding/json"
	"fmt"
	"os"
	"strings"

	"verif/rt"
	"verif/sched"
	"verif/wire"
)

func init() {
	rt.Register("C06", rt.Harness{Run: runC06, Replay: replayPool})
}

func replayPool(c *rt.Ctx, raw json.RawMessage) string {
	var sc PoolScenario
	if err := json.Unmarshal(raw, &sc); err != nil {
		return "bad scenario: " + err.Error()
	}
	var r *PoolResult
	sched.Bubble(c.T, func() { r = RunPool(sc, sc.Choices) })
	fs := poolOracle(sc, r)
	out := fmt.Sprintf("batch=%d pool=%d prep=%v callers=%v cuts<=%d refusals=%d\nevents: %s\n", sc.BatchSize, sc.PoolSize, opsStrings(sc.Prep), opsStrings(sc.Callers), sc.MaxCuts, sc.Refusals, r.Describe())
	for i := range sc.Callers {
		out += fmt.Sprintf("  caller %d: direct connection -> %s | through the pool -> %s (returned=%v)\n", i, r.Expected[i], r.Results[i], r.Done[i])
	}
	if len(fs) == 0 {
		return out + "OK: no finding"
	}
	s := "VIOLATION reproduced:\n"
	for _, f := range fs {
		s += "  " + f.Sig + " :: " + f.What + "\n"
	}
	return s + out
}

// poolOracle: each caller gets exactly its own, correct result (differential against the direct
// handler); with cuts an error is acceptable instead, a partial multi-key answer is not.
func poolOracle(sc PoolScenario, r *PoolResult) (fs []Finding) {
	add := func(i int, clause, what string) {
		fs = append(fs, Finding{Sig: fmt.Sprintf("%s %s op=%s", sc.Harness, clause, opTag(sc.Callers[i])), What: fmt.Sprintf("caller %d (%s): %s", i, sc.Callers[i], what), Clause: clause})
	}
	if r.StaleBatch != "" {
		fs = append(fs, Finding{Sig: sc.Harness + " stale-batch-written-to-new-connection", What: r.StaleBatch, Clause: "stale-batch"})
		return
	}
	if r.Diverged != "" {
		// The pool iterates over Go maps on its retry path; their order cannot be controlled, so a
		// prefix occasionally meets a different enabled set. That is the harness's limit, not a
		// property violation: the subtree is skipped and the run is marked non-exhaustive.
		return
	}
	for i := range sc.Callers {
		if !r.Done[i] {
			add(i, "caller-never-returns", fmt.Sprintf("the call did not return within %d environment events (%d cuts)", r.Steps, r.Cuts))
			continue
		}
		e, g := r.Expected[i], r.Results[i]
		if r.Cuts > 0 && g.Class == "error" {
			continue // after a connection loss an error outcome is acceptable
		}
		if (sc.Callers[i].Kind == "gete" || sc.Callers[i].Kind == "mgete") && r.ElapsedSec > 0 {
			// remaining lifetime is part of the answer; the explorer let virtual time pass, so the
			// pool's answer may be lower than the direct one by at most that much
			for hi := range g.Hits {
				for _, eh := range e.Hits {
					if eh.Idx == g.Hits[hi].Idx && g.Hits[hi].TTL <= eh.TTL && eh.TTL-g.Hits[hi].TTL <= r.ElapsedSec {
						g.Hits[hi].TTL = eh.TTL
					}
				}
			}
		}
		if cl, d := DiffH(e, g); cl != "" {
			if r.Cuts > 0 {
				cl += "-after-cut"
			}
			add(i, cl, "direct connection: "+e.String()+"; through the pool: "+g.String()+" ("+d+")")
		}
	}
	// what ended up in the backend must be what the same commands store over a direct connection
	// (only in scenarios without cuts, late callers and clock advances: with cuts the pool may
	// execute a command twice, and remaining lifetimes shrink as virtual time passes)
	if sc.MaxCuts == 0 && !sc.Late && r.ElapsedSec == 0 && len(fs) == 0 && r.FinalStore != r.ExpectedStore {
		all := true
		for i := range sc.Callers {
			all = all && r.Done[i]
		}
		if all {
			fs = append(fs, Finding{Sig: sc.Harness + " backend-contents-differ", What: "after all calls returned the backend holds " + trunc200(r.FinalStore) + " ; the same commands over a direct connection leave " + trunc200(r.ExpectedStore), Clause: "backend-contents"})
		}
	}
	// with cuts the pool may execute a command more than once, but a write it reports as done must
	// have been executed at least once: its effect is in the backend (callers use private keys)
	if sc.MaxCuts > 0 && r.Final != nil {
		for i, op := range sc.Callers {
			if !r.Done[i] || r.Results[i].Class != "ok" {
				continue
			}
			it, present := r.Final[op.Key]
			lost := ""
			switch op.Kind {
			case "set", "add", "replace":
				if !present || it != string(op.Value()) {
					lost = fmt.Sprintf("the backend does not hold the value (present=%v %q)", present, trunc200(it))
				}
			case "delete":
				if present {
					lost = "the key is still there"
				}
			case "append":
				if !present || !strings.HasSuffix(it, string(op.Value())) {
					lost = fmt.Sprintf("the backend's value does not end in the appended bytes (present=%v %q)", present, trunc200(it))
				}
			case "prepend":
				if !present || !strings.HasPrefix(it, string(op.Value())) {
					lost = fmt.Sprintf("the backend's value does not start with the prepended bytes (present=%v %q)", present, trunc200(it))
				}
			}
			if lost != "" {
				add(i, "acknowledged-write-never-executed", "the call returned success after a connection loss, but "+lost)
			}
		}
	}
	if sc.Late {
		n := len(sc.Callers)
		if !r.Done[n] {
			fs = append(fs, Finding{Sig: sc.Harness + " pool-dead-after-recovery", What: "a new call issued after the backend accepted connections again never returned"})
		} else if r.Results[n].Class != "ok" {
			fs = append(fs, Finding{Sig: sc.Harness + " pool-broken-after-recovery", What: "a new call issued after the backend accepted connections again returned " + r.Results[n].String()})
		}
	}
	return
}

func trunc200(s string) string {
	if len(s) > 400 {
		return s[:400] + "..."
	}
	return s
}

// poolCommands: per caller (disjoint keys, caller-tagged values) every command kind in hit and
// miss variants. prep lists what must exist beforehand.
func poolCommands(i int) (cmds []wire.Op, prep []wire.Op) {
	k := func(s string) string { return fmt.Sprintf("c%d-%s", i, s) }
	tag := fmt.Sprintf("<%d>", i)
	prep = []wire.Op{
		{Kind: "set", Key: k("h"), Val: "held" + tag, Flags: uint32(10 + i), TTL: 500},
		{Kind: "set", Key: k("h2"), Val: "", Flags: 0xffffffff},
	}
	cmds = []wire.Op{
		{Kind: "get", Key: k("h")},
		{Kind: "get", Key: k("m")},
		{Kind: "set", Key: k("m"), Val: "new" + tag, Flags: 1, TTL: 100},
		{Kind: "add", Key: k("m"), Val: "add" + tag, Flags: 2},
		{Kind: "add", Key: k("h"), Val: "add" + tag, Flags: 2},
		{Kind: "replace", Key: k("h"), Val: "rep" + tag, Flags: 3},
		{Kind: "replace", Key: k("m"), Val: "rep" + tag, Flags: 3},
		{Kind: "append", Key: k("h"), Val: "+" + tag},
		{Kind: "append", Key: k("m"), Val: "+" + tag},
		{Kind: "prepend", Key: k("h"), Val: tag + "+"},
		{Kind: "prepend", Key: k("m"), Val: tag + "+"},
		{Kind: "delete", Key: k("h")},
		{Kind: "delete", Key: k("m")},
		{Kind: "touch", Key: k("h"), TTL: 50},
		{Kind: "touch", Key: k("m"), TTL: 50},
		{Kind: "gat", Key: k("h"), TTL: 50},
		{Kind: "gat", Key: k("m"), TTL: 50},
		{Kind: "gete", Key: k("h")},
		{Kind: "gete", Key: k("m")},
		{Kind: "mget", Keys: []string{k("h"), k("m"), k("h2")}},
		{Kind: "mget", Keys: []string{k("h"), k("h"), k("m"), k("m")}},
		{Kind: "mget", Keys: []string{k("m"), k("h2"), k("h"), k("h2")}},
		// binary pipelines: quiet keys closed by a plain get, and all-quiet closed by a no-op
		{Kind: "mget", Keys: []string{k("h"), k("m"), k("h2"), k("h")}, Quiet: []bool{true, true, true, false}},
		{Kind: "mget", Keys: []string{k("h2"), k("h"), k("m")}, Quiet: []bool{true, true, true}, NoopEnd: true},
		// what the text protocol's "get a a b" produces: every key with opaque 0, nothing quiet
		{Kind: "mget", Keys: []string{k("h"), k("h"), k("m"), k("h2"), k("h")}, Opaque0: true},
		{Kind: "mgete", Keys: []string{k("h2"), k("h"), k("h")}, Opaque0: true},
		// quiet writes (SETQ, DELETEQ, ... arrive at the handler as the same call with the quiet flag)
		{Kind: "set", Key: k("m"), Val: "quiet" + tag, Flags: 4, QuietW: true},
		{Kind: "delete", Key: k("h"), QuietW: true},
		{Kind: "append", Key: k("h"), Val: "+q" + tag, QuietW: true},
		{Kind: "add", Key: k("h"), Val: "addq" + tag, QuietW: true},
		// multi-key get-with-expiry (every hit must carry the remaining lifetime)
		{Kind: "mgete", Keys: []string{k("h"), k("m"), k("h"), k("h2")}},
	}
	return
}

// exploreEvents is the deviation-bounded DFS over environment-event choice sequences.
func exploreEvents(c *rt.Ctx, sc PoolScenario, bound, maxExecs int, onExec func(r *PoolResult) bool) (execs int, truncated bool) {
	var rec func(prefix []int) bool
	rec = func(prefix []int) bool {
		if execs >= maxExecs || c.Expired() {
			truncated = true
			return false
		}
		var r *PoolResult
		_, other := sched.Bubble(c.T, func() { r = RunPool(sc, prefix) })
		if other != nil {
			panic(other)
		}
		execs++
		if r.Diverged != "" {
			c.Add("n_replay_divergences", 1)
			if os.Getenv("VERIF_DEBUG") != "" {
				b, _ := json.Marshal(sc)
				if f, err := os.OpenFile(os.Getenv("VERIF_DEBUG"), os.O_APPEND|os.O_CREATE|os.O_WRONLY, 0644); err == nil {
					fmt.Fprintf(f, "DIVERGED %s prefix=%v: %s\n", b, prefix, r.Diverged)
					f.Close()
				}
			}
			c.Cap("a replayed event prefix met a different enabled set (uncontrollable map iteration order inside the pool's retry path); that subtree was skipped")
			return true
		}
		if !onExec(r) {
			return false
		}
		dev := 0
		for i, d := range r.Trace {
			if i >= len(prefix) {
				for alt := 1; alt < d.N; alt++ {
					if dev+1 > bound || (sc.AltCap > 0 && alt > sc.AltCap) {
						break
					}
					np := append(append([]int{}, r.Choices()[:i]...), alt)
					if !rec(np) {
						return false
					}
				}
			}
			if d.Chosen != 0 {
				dev++
			}
		}
		return true
	}
	rec(nil)
	return
}

func runC06(c *rt.Ctx) {
	bound := 2
	if c.Thorough() {
		bound = 3
	}
	item := 0
	run := func(sc PoolScenario) {
		c.Crumb(fmt.Sprintf("callers=%d batch=%d pool=%d", len(sc.Callers), sc.BatchSize, sc.PoolSize), sc)
		outs := map[string]bool{}
		n, trunc := exploreEvents(c, sc, bound, 3000, func(r *PoolResult) bool {
			c.Eval(1)
			c.Trace(1)
			c.Trans(int64(len(r.Trace)))
			outs[r.Outcome] = true
			if sc.Monitor > 0 && r.Dials > sc.PoolSize {
				c.Add("n_event_sequences_in_which_the_pool_grew", 1)
			}
			fs := poolOracle(sc, r)
			for _, f := range fs {
				scc := sc
				scc.Choices = r.Choices()
				c.Violation(f.Sig, f.What+"\nevents: "+r.Describe(), scc)
			}
			return len(fs) == 0
		})
		if trunc {
			c.Cap("event-sequence cap reached for a pool scenario")
		}
		key := fmt.Sprintf("%d|%d|%v", sc.BatchSize, sc.PoolSize, opsStrings(sc.Callers))
		c.Distinct(key)
		if len(sc.Callers) > 1 {
			c.Nontrivial(key)
		}
		c.State(int64(len(outs)))
		if item%211 == 0 {
			c.Sample(map[string]interface{}{"batch_size": sc.BatchSize, "pool_size": sc.PoolSize, "callers": opsStrings(sc.Callers), "event_sequences": n})
		}
	}
	c0, p0 := poolCommands(0)
	c1, p1 := poolCommands(1)
	c2, p2 := poolCommands(2)
	// one caller
	for _, bs := range []int{1, 2} {
		for _, ps := range []int{1, 2} {
			for _, a := range c0 {
				item++
				if c.Mine(item) && !c.Expired() {
					run(PoolScenario{Harness: "C06", BatchSize: bs, PoolSize: ps, Prep: p0, Callers: []wire.Op{a}})
				}
			}
		}
	}
	// two callers: every ordered pair of command variants
	for _, bs := range []int{1, 2, 3} {
		for _, ps := range []int{1, 2} {
			for _, a := range c0 {
				for _, b := range c1 {
					item++
					if c.Mine(item) && !c.Expired() {
						run(PoolScenario{Harness: "C06", BatchSize: bs, PoolSize: ps, Prep: append(append([]wire.Op{}, p0...), p1...), Callers: []wire.Op{a, b}})
					}
				}
			}
		}
	}
	// three (thorough: four) callers: a rotating selection
	for _, bs := range []int{2, 3} {
		for _, ps := range []int{1, 2} {
			for i := range c0 {
				item++
				if c.Mine(item) && !c.Expired() {
					callers := []wire.Op{c0[i], c1[(i*7+3)%len(c1)], c2[(i*5+11)%len(c2)]}
					prep := append(append(append([]wire.Op{}, p0...), p1...), p2...)
					if c.Thorough() {
						c3, p3 := poolCommands(3)
						callers = append(callers, c3[(i*3+1)%len(c3)])
						prep = append(prep, p3...)
					}
					run(PoolScenario{Harness: "C06", BatchSize: bs, PoolSize: ps, Prep: prep, Callers: callers})
				}
			}
		}
	}
	// a batch larger than the socket's send buffer: the write of one pooled connection stalls
	// half-way (explorer event) while the other pooled connection keeps batching
	for _, bs := range []int{1, 2} {
		for i, b := range c1 {
			if i%2 == 1 && !c.Thorough() {
				continue
			}
			item++
			if c.Mine(item) && !c.Expired() {
				big := wire.Op{Kind: "set", Key: "c0-big", VGen: true, VLen: 3000, VSeed: 5, Flags: 77}
				big2 := wire.Op{Kind: "append", Key: "c2-h", VGen: true, VLen: 2500, VSeed: 6}
				run(PoolScenario{Harness: "C06", BatchSize: bs, PoolSize: 2, Prep: append(append(append([]wire.Op{}, p0...), p1...), p2...), Callers: []wire.Op{big, b, big2}, StallBytes: 700})
			}
		}
	}
	// the pool grows while it is in use: the pool's own monitor runs (rend's default thresholds; with
	// batches that are always full it adds a pooled connection at every evaluation) and "the monitor
	// evaluates" is an event between the callers' events
	for _, bs := range []int{1, 2} {
		for i := range c0 {
			if i%2 == 0 && !c.Thorough() {
				continue
			}
			item++
			if c.Mine(item) && !c.Expired() {
				callers := []wire.Op{c0[i], c1[(i*7+3)%len(c1)], c2[(i*5+11)%len(c2)]}
				prep := append(append(append([]wire.Op{}, p0...), p1...), p2...)
				run(PoolScenario{Harness: "C06", BatchSize: bs, PoolSize: 1, Prep: prep, Callers: callers[:2], Monitor: 2, Late: true})
				run(PoolScenario{Harness: "C06", BatchSize: bs, PoolSize: 1, Prep: prep, Callers: callers, Monitor: 2, Late: true})
			}
		}
	}
	// cold start: the pool does not exist yet and the backend refuses the first dials while several
	// callers obtain their handlers (every client connection of memproxy does that for itself): each
	// caller's command must still reach the backend and get its own answer
	for _, bs := range []int{1, 2} {
		for _, cold := range []int{1, 2} {
			for i := range c0 {
				if i%2 == 1 && !c.Thorough() {
					continue
				}
				item++
				if c.Mine(item) && !c.Expired() {
					callers := []wire.Op{c0[i], c1[(i*7+3)%len(c1)], c2[(i*5+11)%len(c2)]}
					prep := append(append(append([]wire.Op{}, p0...), p1...), p2...)
					run(PoolScenario{Harness: "C06", BatchSize: bs, PoolSize: 1, Prep: prep, Callers: callers[:2], ColdStart: cold})
					if cold == 1 {
						run(PoolScenario{Harness: "C06", BatchSize: bs, PoolSize: 1, Prep: prep, Callers: callers, ColdStart: cold})
					}
				}
			}
		}
	}
	// a backend that answers very late (ten seconds of virtual time pass while a reply is held back)
	// and then recovers: the caller still gets its own result, and the pool serves a later caller
	for _, ps := range []int{1, 2} {
		for i, a := range c0 {
			if i%2 == 1 && !c.Thorough() {
				continue
			}
			item++
			if c.Mine(item) && !c.Expired() {
				run(PoolScenario{Harness: "C06", BatchSize: 1, PoolSize: ps, Prep: p0, Callers: []wire.Op{a}, SlowAdvance: true, Late: true})
			}
		}
		for i := range c0 {
			if i%4 != 0 {
				continue
			}
			item++
			if c.Mine(item) && !c.Expired() {
				run(PoolScenario{Harness: "C06", BatchSize: 2, PoolSize: ps, Prep: append(append([]wire.Op{}, p0...), p1...), Callers: []wire.Op{c0[i], c1[(i*7+3)%len(c1)]}, SlowAdvance: true, Late: true})
			}
		}
	}
	// values larger than the pool's buffers may hold more than once (16 KiB against an 8 KiB threshold
	// one might pick, 70 KB against the 64 KiB reader and batch buffers): two callers read big values
	// over one pooled connection; the bytes are looked at only after both have been served
	for _, ps := range []int{1, 2} {
		for _, bs := range []int{1, 2} {
			for _, sz := range []int{16384, 70000, 1048577} {
				if sz > 1000000 && (ps != 1 || bs != 1) {
					continue // one configuration is enough for the value beyond 1 MiB
				}
				item++
				if !c.Mine(item) || c.Expired() {
					continue
				}
				prep := []wire.Op{{Kind: "set", Key: "c0-big", VGen: true, VLen: sz, VSeed: 41, Flags: 1}, {Kind: "set", Key: "c1-big", VGen: true, VLen: sz + 1, VSeed: 42, Flags: 2}}
				for _, buf := range []int{0, 65536} {
					run(PoolScenario{Harness: "C06", BatchSize: bs, PoolSize: ps, BufSize: buf, Prep: prep, Callers: []wire.Op{{Kind: "get", Key: "c0-big"}, {Kind: "get", Key: "c1-big"}, {Kind: "mget", Keys: []string{"c1-big", "c0-big"}}}})
				}
			}
		}
	}
	// many callers at once (8, 16, 64), each on keys of its own, batches of 4 and 8 on 1, 2 and 4
	// pooled connections: the default event order and every single deviation from it (with 16 and 64
	// callers: at every decision the three alternatives nearest to the default)
	for _, nc := range []int{8, 16, 64} {
		for _, bs := range []int{4, 8} {
			for _, ps := range []int{1, 2, 4} {
				for rot := 0; rot < 3; rot++ {
					if !c.Thorough() && (rot > 0 || (nc == 64 && ps == 2)) {
						continue
					}
					item++
					if !c.Mine(item) || c.Expired() {
						continue
					}
					var callers, prep []wire.Op
					for i := 0; i < nc; i++ {
						ci, pi := poolCommands(i)
						callers = append(callers, ci[(i*7+3+rot*5)%len(ci)])
						prep = append(prep, pi...)
					}
					sc := PoolScenario{Harness: "C06", BatchSize: bs, PoolSize: ps, Prep: prep, Callers: callers}
					if nc > 8 {
						sc.AltCap = 3 // at every decision the default and its three nearest alternatives
					}
					c.Crumb(fmt.Sprintf("callers=%d batch=%d pool=%d", nc, bs, ps), sc)
					limit := 3000
					if c.Thorough() {
						limit = 20000
					}
					n, trunc := exploreEvents(c, sc, 1, limit, func(r *PoolResult) bool {
						c.Eval(1)
						c.Trace(1)
						c.Trans(int64(len(r.Trace)))
						fs := poolOracle(sc, r)
						for _, f := range fs {
							scc := sc
							scc.Choices = r.Choices()
							c.Violation(f.Sig, f.What+"\nevents: "+r.Describe(), scc)
						}
						return len(fs) == 0
					})
					if trunc {
						c.Cap(fmt.Sprintf("many-caller scenarios: %d event sequences run per scenario, single-deviation level not completed", limit))
					}
					c.Distinct(fmt.Sprintf("many|%d|%d|%d|%d", nc, bs, ps, rot))
					c.Nontrivial(fmt.Sprintf("many|%d|%d|%d|%d", nc, bs, ps, rot))
					c.Add("n_many_caller_event_sequences", int64(n))
				}
			}
		}
	}
	c.Set("deviation_bound", bound)
}
