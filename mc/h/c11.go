package h

import (
	"encoding/binary"
	"encoding/json"
	"fmt"
	"github.com/netflix/rend/verifshim/vsync"
	"runtime/debug"
	"runtime/metrics"
	"strconv"
	"strings"

	"verif/rt"
	"verif/wire"
)

func init() {
	rt.Register("C11", rt.Harness{Run: runC11, Replay: func(c *rt.Ctx, raw json.RawMessage) string {
		var sc BadInput
		if err := json.Unmarshal(raw, &sc); err != nil {
			return "bad scenario: " + err.Error()
		}
		o := RunBadInput(sc)
		if dp := vsync.TakeDoublePuts(); len(dp) > 0 {
			return "VIOLATION reproduced: pooled-object-put-twice: " + dp[0]
		}
		s := fmt.Sprintf("proto=%s input=%q keepOpen=%v\n -> replied=%dB closed=%v waiting=%v alloc=%d bound=%d spun=%v panic=%v\n", sc.Proto, sc.Bytes, sc.KeepOpen, o.Replied, o.Closed, o.Waiting, o.Alloc, o.Bound, o.Spun, o.Panic)
		if cl, d := o.verdict(sc); cl != "" {
			return "VIOLATION reproduced: " + cl + ": " + d + "\n" + s
		}
		return s + "OK: no finding"
	}})
}

// BadInput is one byte string sent on a fresh connection.
type BadInput struct {
	Proto    string `json:"proto"`
	Bytes    []byte `json:"bytes"`
	KeepOpen bool   `json:"keepOpen"` // the client keeps the connection open and waits after sending
	Tag      string `json:"tag"`
}

type badOutcome struct {
	Replied int
	Closed  bool // server closed the connection
	Waiting bool // server is blocked waiting for more input
	Alloc   uint64
	Bound   uint64
	Spun    bool
	Panic   interface{}
	Skipped bool
	// Stack: growth of the memory reserved for goroutine stacks while the input was consumed
	Stack uint64
}

// stackSlack: stack memory the server may take for one connection whatever it is sent.
const stackSlack = 8 << 20

// runtime/metrics flushes per-P allocation statistics lazily, so the delta is only accurate to a
// few hundred KiB; the constant of the bound is set well above that.
const allocSlack = 4 << 20
const maxDeclared = 64 << 20

// declared computes, for the first frame of the input, the sizes it consistently declares and
// whether its length fields contradict each other.
func declared(sc BadInput) (decl uint64, contradictory bool) {
	b := sc.Bytes
	if sc.Proto == "binary" {
		// walk all complete headers in the input (quiet-get batches chain headers)
		pos := 0
		for pos+24 <= len(b) && b[pos] == 0x80 {
			k := uint64(binary.BigEndian.Uint16(b[pos+2 : pos+4]))
			e := uint64(b[pos+4])
			t := uint64(binary.BigEndian.Uint32(b[pos+8 : pos+12]))
			if t < k+e {
				return decl + k, true
			}
			decl += t
			pos += 24 + int(t)
			if t > maxDeclared {
				break
			}
		}
		return decl, false
	}
	// text: the length field of a storage command line
	for _, ln := range strings.Split(string(b), "\n") {
		f := strings.Split(strings.TrimSpace(ln), " ")
		switch f[0] {
		case "set", "add", "replace", "append", "prepend":
			if len(f) == 5 {
				if n, err := strconv.ParseUint(f[4], 10, 32); err == nil {
					decl += n
				}
			}
		}
	}
	return decl, false
}

// RunBadInput sends the bytes to a fresh L1-only server and observes it.
func RunBadInput(sc BadInput) (o badOutcome) {
	decl, _ := declared(sc)
	if decl > maxDeclared {
		o.Skipped = true
		return
	}
	var out badOutcome
	NoBubble(func() {
		w := NewWorld(Cfg{Orca: "l1only", Lock: "none", Proto: sc.Proto, L1H: "std"})
		s := w.Connect(0)
		a0, s0 := heapAllocBytes(), stackBytes()
		s.Send(sc.Bytes)
		out.Alloc = heapAllocBytes() - a0
		if s1 := stackBytes(); s1 > s0 {
			out.Stack = s1 - s0
		}
		out.Waiting = !s.Ended
		out.Replied = len(s.Cli.Out)
		if !sc.KeepOpen {
			s.Hangup()
		} else if !s.Ended {
			// leave the loop parked; nothing more will be sent
			s.Cli.mu.Lock()
			s.Cli.mu.Unlock()
		}
		out.Closed = s.Cli.Closed()
		out.Replied = len(s.Cli.Out)
		out.Spun = s.Cli.Spun
		out.Panic = s.Panics
		if sc.KeepOpen && !s.Ended {
			s.Hangup()
		}
	})
	out.Bound = allocSlack + 256*uint64(len(sc.Bytes)) + decl // cumulative allocation: replies, error values and the harness's own transcript cost a few hundred bytes per input unit
	if out.Alloc > out.Bound {
		debug.FreeOSMemory()
	}
	return out
}

var allocSample = []metrics.Sample{{Name: "/gc/heap/allocs:bytes"}}
var stackSample = []metrics.Sample{{Name: "/memory/classes/heap/stacks:bytes"}}

// stackBytes is the memory currently reserved for goroutine stacks.
func stackBytes() uint64 {
	metrics.Read(stackSample)
	return stackSample[0].Value.Uint64()
}

// heapAllocBytes is the cumulative number of bytes allocated on the heap by this process
// (runtime/metrics; unlike ReadMemStats it does not stop the world).
func heapAllocBytes() uint64 {
	metrics.Read(allocSample)
	return allocSample[0].Value.Uint64()
}

func (o badOutcome) verdict(sc BadInput) (clause, detail string) {
	if o.Skipped {
		return "", ""
	}
	if o.Panic != nil {
		return "panic-escaped", fmt.Sprint(o.Panic)
	}
	if o.Stack > stackSlack {
		return "stack-growth", fmt.Sprintf("consuming %d input bytes made the goroutine stacks grow by %d bytes (recursion per input unit: a longer input of the same shape overflows the stack, which kills the whole process)", len(sc.Bytes), o.Stack)
	}
	if o.Spun {
		return "spin", "the server keeps reading a connection the client has closed"
	}
	if o.Alloc > o.Bound {
		return "allocation", fmt.Sprintf("decoding allocated %d bytes; constant + what the frame consistently declares is %d", o.Alloc, o.Bound)
	}
	_, contra := declared(sc)
	if contra && sc.KeepOpen && o.Waiting && o.Replied == 0 && !o.Closed {
		return "waits-on-contradictory-frame", "the frame's length fields contradict each other, yet the server neither answered nor closed: it waits for bytes the client will never send"
	}
	if !sc.KeepOpen && !o.Closed {
		return "not-closed-after-eof", "client closed the connection but the server did not"
	}
	return "", ""
}

func binHeader(op byte, k uint16, e byte, t uint32, opaque uint32) []byte {
	b := make([]byte, 24)
	b[0] = 0x80
	b[1] = op
	binary.BigEndian.PutUint16(b[2:4], k)
	b[4] = e
	binary.BigEndian.PutUint32(b[8:12], t)
	binary.BigEndian.PutUint32(b[12:16], opaque)
	return b
}

func runC11(c *rt.Ctx) {
	item := 0
	sigCount := map[string]int{}
	try := func(sc BadInput) {
		c.Crumb("tag="+sc.Tag, sc)
		o := RunBadInput(sc)
		if dp := vsync.TakeDoublePuts(); len(dp) > 0 {
			sig := fmt.Sprintf("C11 pooled-object-put-twice proto=%s %s", sc.Proto, sc.Tag)
			sigCount[sig]++
			c.Violation(sig, fmt.Sprintf("input %q keepOpen=%v: handling this input returned a pooled object to its pool twice, so two later requests (of other, well-behaved connections) will be handed the same object: %s", trunc(sc.Bytes, 80), sc.KeepOpen, dp[0]), sc)
		}
		if o.Skipped {
			c.Add("n_skipped_large_consistent", 1)
			return
		}
		c.Eval(1)
		_, contra := declared(sc)
		key := fmt.Sprintf("%s|%v|%x", sc.Proto, sc.KeepOpen, sc.Bytes)
		if len(key) > 200 {
			key = key[:200] + fmt.Sprint(len(sc.Bytes))
		}
		c.Distinct(key)
		if contra || o.Replied > 0 {
			c.Nontrivial(key)
		}
		if cl, d := o.verdict(sc); cl != "" {
			sig := fmt.Sprintf("C11 %s proto=%s %s", cl, sc.Proto, sc.Tag)
			sigCount[sig]++
			c.Violation(sig, fmt.Sprintf("input %q keepOpen=%v: %s", trunc(sc.Bytes, 80), sc.KeepOpen, d), sc)
		}
	}
	tooMany := func() bool {
		for _, n := range sigCount {
			if n >= 20 {
				return true
			}
		}
		return false
	}
	// ---- (a) binary header grid ----------------------------------------------------------------
	var opcodes []int
	for op := 0; op < 256; op++ {
		if c.Thorough() || op <= 0x24 || op == 0x40 || op == 0x41 || op == 0x7f || op == 0x80 || op == 0xff {
			opcodes = append(opcodes, op)
		}
	}
	klens := []uint16{0, 1, 2, 250, 65535}
	elens := []byte{0, 4, 8, 255}
	var totals []uint32
	for t := uint32(0); t <= 24; t++ {
		totals = append(totals, t)
	}
	totals = append(totals, 250, 251, 258, 259, 1<<31, 1<<32-1)
	conts := []int{0, 4, 8, 16}
	for _, op := range opcodes {
		for _, k := range klens {
			item++
			if !c.Mine(item) {
				continue
			}
			if c.Expired() || tooMany() {
				if tooMany() {
					c.Cap("a signature was seen 20 times in this worker: remaining grid skipped (a violating tree is not covered exhaustively)")
				}
				return
			}
			for _, e := range elens {
				for _, t := range totals {
					for _, cont := range conts {
						for _, keep := range []bool{false, true} {
							b := append(binHeader(byte(op), k, e, t, 0x01020304), make([]byte, cont)...)
							for i := 24; i < len(b); i++ {
								b[i] = 'x'
							}
							try(BadInput{Proto: "binary", Bytes: b, KeepOpen: keep, Tag: fmt.Sprintf("grid op=%#02x", op)})
						}
					}
				}
			}
		}
	}
	// ---- (a2) well-formed frames whose key is longer than any memcached key ---------------------
	// (self-consistent, so the parsers accept them; what the layers below do with a key that fits
	// none of their fixed-size assumptions must stay an error reply or a closed connection)
	for _, proto := range []string{"binary", "text"} {
		for _, kl := range []int{251, 255, 256, 257, 266, 267, 290, 300, 1000, 4096, 65535} {
			key := strings.Repeat("K", kl)
			ops := []wire.Op{{Kind: "get", Key: key}, {Kind: "set", Key: key, Val: "v"}, {Kind: "delete", Key: key}, {Kind: "touch", Key: key, TTL: 10},
				{Kind: "mget", Keys: []string{"a", key, "b"}, Quiet: []bool{proto == "binary", proto == "binary", false}}, {Kind: "append", Key: key, Val: "v"}}
			if proto == "binary" {
				ops = append(ops, wire.Op{Kind: "gat", Key: key, TTL: 10}, wire.Op{Kind: "gete", Key: key})
			}
			for _, op := range ops {
				item++
				if !c.Mine(item) {
					continue
				}
				b := append(wire.Encode(proto, op), wire.Encode(proto, wire.Op{Kind: "get", Key: "after"})...)
				for _, keep := range []bool{false, true} {
					try(BadInput{Proto: proto, Bytes: b, KeepOpen: keep, Tag: fmt.Sprintf("longkey op=%s", op.Kind)})
				}
			}
		}
	}
	// ---- (a3) consistent frames announcing a big value of which only a part arrives --------------
	// (the announced size is within what may be allocated; the stream ends early)
	for _, proto := range []string{"binary", "text"} {
		for _, announced := range []int{70000, 1048577, 2097152} {
			for _, kind := range []string{"set", "append"} {
				full := wire.Encode(proto, wire.Op{Kind: kind, Key: "big", Val: string(wire.GenValue(announced, 3))})
				for _, arrive := range []int{64, 4096, 65536, 1048576, 1048577 + 4096, announced - 1} {
					if arrive >= len(full) {
						continue
					}
					item++
					if !c.Mine(item) {
						continue
					}
					try(BadInput{Proto: proto, Bytes: full[:arrive], KeepOpen: false, Tag: fmt.Sprintf("bigvalue-cut op=%s", kind)})
				}
			}
		}
	}
	// ---- (b) mutations of valid requests -------------------------------------------------------
	for _, proto := range []string{"binary", "text"} {
		for _, op := range repOps(proto) {
			item++
			if !c.Mine(item) {
				continue
			}
			if c.Expired() || tooMany() {
				return
			}
			valid := wire.Encode(proto, op)
			tag := "mut " + opTag(op)
			for cut := 0; cut <= len(valid); cut++ {
				try(BadInput{Proto: proto, Bytes: append([]byte{}, valid[:cut]...), KeepOpen: false, Tag: tag})
				try(BadInput{Proto: proto, Bytes: append([]byte{}, valid[:cut]...), KeepOpen: true, Tag: tag})
			}
			for i := 0; i < len(valid); i++ {
				for bit := 0; bit < 8; bit++ {
					m := append([]byte{}, valid...)
					m[i] ^= 1 << uint(bit)
					try(BadInput{Proto: proto, Bytes: m, KeepOpen: false, Tag: tag})
					try(BadInput{Proto: proto, Bytes: m, KeepOpen: true, Tag: tag})
				}
				if proto == "binary" && ((i >= 2 && i <= 4) || (i >= 8 && i <= 11)) {
					for _, v := range []byte{0, 0xff} {
						m := append([]byte{}, valid...)
						m[i] = v
						try(BadInput{Proto: proto, Bytes: m, KeepOpen: false, Tag: tag})
						try(BadInput{Proto: proto, Bytes: m, KeepOpen: true, Tag: tag})
					}
				}
			}
		}
	}
	// ---- (c) text line shapes ------------------------------------------------------------------
	cmds := []string{"set", "add", "replace", "append", "prepend", "get", "delete", "touch", "noop", "quit", "version", "stats", "bogus", "", "SET", "\x80"}
	toks := []string{"", "a", "0", "1", "-1", "4294967295", "4294967296", "99999999999999999999", "abc", "\x00", "\x80", "1e3", "0x10"}
	for _, cmd := range cmds {
		for _, t1 := range toks {
			item++
			if !c.Mine(item) {
				continue
			}
			if c.Expired() || tooMany() {
				return
			}
			var lines []string
			lines = append(lines, cmd, cmd+" "+t1)
			for _, t2 := range toks {
				lines = append(lines, cmd+" "+t1+" "+t2)
				for _, t3 := range toks {
					lines = append(lines, cmd+" "+t1+" "+t2+" "+t3)
					for _, t4 := range []string{"", "0", "1", "3", "-1", "4294967295", "4294967296", "abc"} {
						lines = append(lines, cmd+" "+t1+" "+t2+" "+t3+" "+t4)
					}
				}
			}
			for _, ln := range lines {
				for _, tail := range []string{"\r\n", "\n", "\r\nxyz\r\n", ""} {
					try(BadInput{Proto: "text", Bytes: []byte(ln + tail), KeepOpen: false, Tag: "line " + cmd})
				}
			}
		}
	}
	if c.Mine(7) {
		long := make([]byte, 100000)
		for i := range long {
			long[i] = 'g'
		}
		try(BadInput{Proto: "text", Bytes: long, KeepOpen: false, Tag: "longline"})
		try(BadInput{Proto: "text", Bytes: append(append([]byte("get "), long...), '\r', '\n'), KeepOpen: false, Tag: "longline"})
		c.Sample(map[string]interface{}{"input": "100000 x 'g' without newline", "proto": "text"})
		// many short units: blank / whitespace-only / unknown lines after a valid command, and runs of
		// minimal binary frames (no-ops, unknown opcodes, quiet gets of a missing key)
		for _, unit := range []string{"\r\n", "\n", " \r\n", "x\r\n", "get\r\n"} {
			for _, n := range []int{1000, 60000} {
				b := append([]byte("get a\r\n"), []byte(strings.Repeat(unit, n))...)
				try(BadInput{Proto: "text", Bytes: b, KeepOpen: true, Tag: "many-lines"})
			}
		}
		for _, op := range []byte{0x0a, 0x05, 0x09, 0x0d, 0xff} {
			var b []byte
			for i := 0; i < 20000; i++ {
				k := uint16(0)
				if op == 0x09 || op == 0x0d {
					k = 1
				}
				b = append(b, binHeader(op, k, 0, uint32(k), uint32(i))...)
				if k == 1 {
					b = append(b, 'z')
				}
			}
			try(BadInput{Proto: "binary", Bytes: b, KeepOpen: true, Tag: "many-frames"})
		}
	}
	c.Sample(map[string]interface{}{"input": fmt.Sprintf("%x", binHeader(1, 3, 8, 5, 0x01020304)), "proto": "binary", "meaning": "set with total body 5 < key 3 + extras 8"})
}

func trunc(b []byte, n int) []byte {
	if len(b) > n {
		return b[:n]
	}
	return b
}
