package h

import (
	"errors"
	"fmt"
	"net"
	"os"
	"strings"
	"sync"
	"sync/atomic"
	"testing/synctest"
	"time"

	"github.com/netflix/rend/handlers/memcached/batched"
	"github.com/netflix/rend/handlers/memcached/std"
	"github.com/netflix/rend/verifshim/vcrand"
	"github.com/netflix/rend/verifshim/vnet"
	"github.com/netflix/rend/verifshim/vrand"
	"github.com/netflix/rend/verifshim/vsync"
	"github.com/netflix/rend/verifshim/vyield"

	"verif/fakemc"
	"verif/wire"
)

// PoolScenario: callers using the batching pool concurrently; the explorer chooses, at every
// quiescent point, which environment event happens next.
type PoolScenario struct {
	Harness   string    `json:"harness"`
	BatchSize int       `json:"batchSize"`
	PoolSize  int       `json:"poolSize"`
	Prep      []wire.Op `json:"prep"`
	Callers   []wire.Op `json:"callers"`
	// MaxCuts > 0 enables "cut pooled connection j" events (C13); Refusals is how many dial
	// attempts are refused after the first cut before the backend accepts again.
	MaxCuts  int  `json:"maxCuts,omitempty"`
	Refusals int  `json:"refusals,omitempty"`
	Late     bool `json:"late,omitempty"` // C13: one more caller is started after the last cut and must complete
	// Yields: goroutines of the pool park at the yield points injected before every statement
	// touching the pooled connection / its buffers in the named functions; resuming one is an
	// event (first in the default order, so choice 0 changes nothing).
	Yields []string `json:"yields,omitempty"`
	// StallBytes > 0: pooled connections block a write of more than this many bytes half-way
	// until the explorer lets the backend drain it ("drain-conn j" event).
	StallBytes int   `json:"stallBytes,omitempty"`
	Choices    []int `json:"choices"`
	// FineCuts: a pooled connection can be cut after any of a set of byte offsets of the unread
	// reply bytes (inside the header, right after it, inside and right after the extras, before the
	// last byte), not only in the middle.
	FineCuts bool `json:"fineCuts,omitempty"`
	// BufSize: read/write buffer size of the pooled connections (0: 256 bytes, which forces refills;
	// 65536 is memproxy's default)
	BufSize int `json:"bufSize,omitempty"`
	// SlowAdvance: the "advance-time" event lets ten seconds pass (a backend that answers very late).
	SlowAdvance bool `json:"slowAdvance,omitempty"`
	// HalfClose: a pooled connection can also be cut in one direction only: the backend stops
	// sending (the pool's reader sees a clean end of stream) but its receiving side stays open and
	// unread, so a write larger than StallBytes blocks until the pool closes the connection itself.
	HalfClose bool `json:"halfClose,omitempty"`
	// Monitor > 0: the pool's own monitor is left running with an evaluation interval of five
	// virtual seconds and rend's default expansion thresholds; "the monitor evaluates the pool" (five
	// seconds pass) is an event, at most Monitor times per execution. With small batches that are
	// always full the monitor adds pooled connections while callers are being served.
	Monitor int `json:"monitor,omitempty"`
	// ColdStart > 0: the pool does not exist when the callers arrive and the backend refuses the
	// first ColdStart dials: every caller obtains its handler itself (as every client connection of
	// memproxy does) while the pool's first connection is still being established.
	ColdStart int `json:"coldStart,omitempty"`
	// AltCap > 0: at every decision only the default and its AltCap nearest alternatives are explored.
	AltCap int `json:"altCap,omitempty"`
}

type poolDecision struct {
	N      int
	Chosen int
	What   string
	Opts   []string
}

// PoolResult is one execution.
type PoolResult struct {
	Trace    []poolDecision
	Results  []HRes
	Done     []bool
	Expected []HRes
	Findings []Finding
	Diverged string
	Steps    int
	Cuts     int
	Outcome  string
	Dials    int
	// ElapsedSec is how much virtual time the explorer let pass (whole seconds, rounded up).
	ElapsedSec uint32
	// StaleBatch: the batcher was about to write a batch to a pooled connection that was replaced
	// (by the recovery goroutine) after the batch had been handed to the reader.
	StaleBatch string
	// ExpectedStore / FinalStore: backend contents after all callers, direct vs through the pool.
	ExpectedStore, FinalStore string
	// Final: key -> value of the live backend entries after the execution
	Final map[string]string `json:"-"`
}

// LetStaleBatchRun makes executions continue past the point where a stale batch is about to be
// written (set for replays: the consequence - out-of-sync panic or misdirected replies - follows).
var LetStaleBatchRun = os.Getenv("VERIF_REPLAY") != ""

func (r *PoolResult) Choices() []int {
	out := make([]int, len(r.Trace))
	for i, d := range r.Trace {
		out[i] = d.Chosen
	}
	return out
}

func (r *PoolResult) Describe() string {
	var sb strings.Builder
	for i, d := range r.Trace {
		fmt.Fprintf(&sb, "%d:%s ", i, d.What)
	}
	return sb.String()
}

var poolSockSeq int64

const poolBatchDelay = 1000 * time.Microsecond

// RunPool executes one pool scenario inside the current bubble.
func RunPool(sc PoolScenario, prefix []int) *PoolResult {
	res := &PoolResult{}
	var mu sync.Mutex
	decide := func(opts []string) int {
		mu.Lock()
		defer mu.Unlock()
		ch := 0
		if len(res.Trace) < len(prefix) {
			ch = prefix[len(res.Trace)]
			if ch >= len(opts) {
				if res.Diverged == "" {
					res.Diverged = fmt.Sprintf("decision %d: replayed choice %d of %d options %v", len(res.Trace), ch, len(opts), opts)
				}
				ch = 0
			}
		}
		res.Trace = append(res.Trace, poolDecision{N: len(opts), Chosen: ch, What: opts[ch], Opts: opts})
		return ch
	}

	store := fakemc.NewStore("B")
	prep := std.NewHandler(fakemc.NewConn(store, "prep"))
	for _, op := range sc.Prep {
		CallHandler(prep, op)
	}
	// expected outcome of every caller: the same command over a direct connection to an
	// identically prepared backend
	for _, op := range sc.Callers {
		cl := store.Clone()
		res.Expected = append(res.Expected, CallHandler(std.NewHandler(fakemc.NewConn(cl, "direct")), op))
	}
	// expected final backend contents: all callers' commands over one direct connection (the
	// callers use disjoint keys, so the order does not matter)
	{
		cl := store.Clone()
		dh := std.NewHandler(fakemc.NewConn(cl, "direct"))
		for _, op := range sc.Callers {
			CallHandler(dh, op)
		}
		res.ExpectedStore = cl.Dump()
	}

	var pconns []*fakemc.Conn
	refuse := 0
	vcrand.Deterministic = true
	vnet.DialHook = func(network, address string) (net.Conn, error) {
		mu.Lock()
		defer mu.Unlock()
		res.Dials++
		if refuse > 0 {
			refuse--
			return nil, errors.New("connection refused")
		}
		c := fakemc.NewConn(store, fmt.Sprintf("pool%d", len(pconns)))
		c.Async = true
		c.Hold = true
		c.StallBytes = sc.StallBytes
		pconns = append(pconns, c)
		return c, nil
	}
	var baseSeq int32
	vrand.Int31Hook = func(r *vrand.Rand) int32 { return 100000 * atomic.AddInt32(&baseSeq, 1) }
	vrand.IntnHook = func(r *vrand.Rand, n int) int {
		switch {
		case n <= 1:
			return 0
		case n <= 8: // choice of pooled connection in relay.submit
			opts := make([]string, n)
			for i := range opts {
				opts[i] = fmt.Sprintf("pick-conn%d", i)
			}
			return decide(opts)
		}
		return 0 // reconnect delay / jitter: shortest
	}
	type parkedYield struct {
		label string
		ch    chan struct{}
		gen   int // successful dials when the goroutine parked
	}
	var yields []*parkedYield
	var armed atomic.Bool
	if len(sc.Yields) > 0 {
		vyield.Hook = func(label string) {
			if !armed.Load() {
				return // the pool is still being set up (first dial): nobody could resume a parked goroutine
			}
			ok := false
			for _, fn := range sc.Yields {
				if strings.HasPrefix(label, fn+":") {
					ok = true
				}
			}
			if !ok {
				return
			}
			y := &parkedYield{label: label, ch: make(chan struct{})}
			mu.Lock()
			y.gen = len(pconns)
			yields = append(yields, y)
			mu.Unlock()
			<-y.ch
		}
	}
	defer func() { vnet.DialHook, vrand.IntnHook, vrand.Int31Hook, vyield.Hook = nil, nil, nil, nil }()

	sock := fmt.Sprintf("verif-sock-%d", atomic.AddInt64(&poolSockSeq, 1))
	bufSize := uint32(256)
	if sc.BufSize > 0 {
		bufSize = uint32(sc.BufSize)
	}
	opts := batched.Opts{BatchSize: uint32(sc.BatchSize), BatchDelayMicros: uint32(poolBatchDelay / time.Microsecond), ReadBufSize: bufSize, WriteBufSize: bufSize,
		EvaluationIntervalSec: 4000000000, LoadFactorExpandRatio: 1000, OverloadedConnRatio: 1000}
	if sc.Monitor > 0 {
		opts.EvaluationIntervalSec, opts.LoadFactorExpandRatio, opts.OverloadedConnRatio = 5, 0, 0 // 0: rend's defaults
	}
	var h0 batched.Handler
	if sc.ColdStart > 0 {
		refuse = sc.ColdStart
		// rend holds a process-wide lock while the first connection of a pool is established; other
		// callers wait for it. A goroutine waiting for a real mutex is not "durably blocked", the
		// bubble would never become quiescent: waits for held locks become waits on channels.
		batched.VerifFreshRelayTable()
		dl := &durableLocks{st: map[interface{}]*dlState{}}
		vsync.H = dl
		defer func() { vsync.H = nil }()
	} else {
		h0 = batched.NewHandler(sock, opts)
		for batched.VerifPoolSize(sock) < sc.PoolSize {
			batched.VerifAddConn(sock)
		}
	}
	defer batched.VerifForget(sock)

	synctest.Wait()
	armed.Store(true)
	callers := append([]wire.Op{}, sc.Callers...)
	n := len(callers)
	res.Results = make([]HRes, n+1)
	res.Done = make([]bool, n+1)
	started := make([]bool, n+1)
	start := func(i int, op wire.Op) {
		started[i] = true
		h := h0
		if i > 0 && sc.ColdStart == 0 {
			h = batched.NewHandler(sock, opts)
		}
		go func() {
			if sc.ColdStart > 0 {
				h = batched.NewHandler(sock, opts) // (waits for the pool's first connection)
			}
			r := CallHandlerDeferred(h, op)
			mu.Lock()
			res.Results[i] = r
			res.Done[i] = true
			mu.Unlock()
		}()
	}
	lateOp := wire.Op{Kind: "set", Key: "late", Val: "late-value", Flags: 77}
	cutsLeft := sc.MaxCuts
	monitorLeft := sc.Monitor
	maxSteps := 40 + 12*sc.MaxCuts + 8*len(sc.Callers)
	if len(sc.Yields) > 0 {
		maxSteps += 60
	}
	for res.Steps = 0; res.Steps < maxSteps; res.Steps++ {
		synctest.Wait()
		mu.Lock()
		allDone := true
		for i := 0; i < n; i++ {
			allDone = allDone && res.Done[i]
		}
		lateDone := !sc.Late || res.Done[n]
		var opts []string
		type ev struct {
			kind string
			i    int
			k    int
		}
		var evs []ev
		for yi, y := range yields {
			opts = append(opts, "resume-"+y.label)
			evs = append(evs, ev{"yield", yi, 0})
		}
		for i := 0; i < n; i++ {
			if !started[i] {
				opts = append(opts, fmt.Sprintf("start%d", i))
				evs = append(evs, ev{"start", i, 0})
			}
		}
		if sc.Late && allDone && !started[n] {
			opts = append(opts, "start-late")
			evs = append(evs, ev{"late", n, 0})
		}
		for j, pc := range pconns {
			if pc.Stalled() {
				opts = append(opts, fmt.Sprintf("drain-conn%d", j))
				evs = append(evs, ev{"drain", j, 0})
			}
		}
		for j, pc := range pconns {
			if pc.PendingFrames() > 0 && !pc.PeerClosed && !pc.IsSendShut() {
				opts = append(opts, fmt.Sprintf("deliver-conn%d", j))
				evs = append(evs, ev{"deliver", j, 0})
			}
		}
		mu.Unlock()
		if allDone && lateDone && len(yields) == 0 {
			break
		}
		opts = append(opts, "advance-time")
		evs = append(evs, ev{"advance", 0, 0})
		if monitorLeft > 0 {
			opts = append(opts, "monitor-evaluates-pool")
			evs = append(evs, ev{"monitor", 0, 0})
		}
		if cutsLeft > 0 && !started[n] {
			mu.Lock()
			for j, pc := range pconns {
				if !pc.PeerClosed && !pc.LocalClosed && !pc.IsSendShut() {
					opts = append(opts, fmt.Sprintf("cut-conn%d", j))
					evs = append(evs, ev{"cut", j, 0})
					if sc.HalfClose {
						opts = append(opts, fmt.Sprintf("half-close-conn%d", j))
						evs = append(evs, ev{"halfclose", j, 0})
					}
					if a, _ := pc.Residue(); a > 1 {
						opts = append(opts, fmt.Sprintf("cut-conn%d-mid-reply", j))
						evs = append(evs, ev{"cutmid", j, 0})
					}
					if sc.FineCuts && pc.PendingFrames() > 0 {
						// the next held request is answered, but the connection is lost k bytes into the reply
						for _, k := range []int{1, 23, 24, 25, 26, 27, 28, 29, 31, 32} {
							opts = append(opts, fmt.Sprintf("deliver-conn%d-lost-after-%d-bytes", j, k))
							evs = append(evs, ev{"cutat", j, k})
						}
					}
				}
			}
			mu.Unlock()
		}
		e := evs[decide(opts)]
		switch e.kind {
		case "yield":
			mu.Lock()
			y := yields[e.i]
			yields = append(yields[:e.i], yields[e.i+1:]...)
			stale := strings.HasPrefix(y.label, "batcher:") && y.gen != len(pconns)
			mu.Unlock()
			if stale {
				res.StaleBatch = fmt.Sprintf("the batcher handed a batch to the reader while pooled connection #%d was current and is about to write it (%s) after the recovery goroutine replaced the connection (now #%d)", y.gen-1, y.label, len(pconns)-1)
				if !LetStaleBatchRun {
					return res // the batcher stays parked; what would follow is an out-of-sync panic or misdirected replies
				}
			}
			close(y.ch)
		case "start":
			start(e.i, callers[e.i])
		case "late":
			start(n, lateOp)
		case "deliver":
			pconns[e.i].Deliver()
		case "drain":
			pconns[e.i].Drain()
		case "advance":
			// let the batch timer (and any reconnect back-off) fire
			time.Sleep(poolBatchDelay)
			if sc.SlowAdvance {
				time.Sleep(10 * time.Second)
				res.ElapsedSec += 11
			}
			if sc.MaxCuts > 0 || sc.ColdStart > 0 {
				time.Sleep(1100 * time.Millisecond)
				res.ElapsedSec += 2
			}
		case "monitor":
			monitorLeft--
			time.Sleep(5 * time.Second)
			res.ElapsedSec += 5
		case "cut":
			cutsLeft--
			res.Cuts++
			mu.Lock()
			refuse = sc.Refusals
			mu.Unlock()
			pconns[e.i].Cut()
		case "halfclose":
			cutsLeft--
			res.Cuts++
			mu.Lock()
			refuse = sc.Refusals
			mu.Unlock()
			pconns[e.i].HalfClose()
		case "cutat":
			cutsLeft--
			res.Cuts++
			mu.Lock()
			refuse = sc.Refusals
			mu.Unlock()
			pconns[e.i].DeliverCut(e.k)
		case "cutmid":
			cutsLeft--
			res.Cuts++
			mu.Lock()
			refuse = sc.Refusals
			mu.Unlock()
			a, _ := pconns[e.i].Residue()
			pconns[e.i].CutKeeping(a / 2)
		}
	}
	synctest.Wait()
	mu.Lock()
	defer mu.Unlock()
	// only now, after every caller has been served on the shared connections, look at the bytes
	for i := range res.Results {
		res.Results[i].Materialize()
	}
	var o []string
	for i := 0; i < n; i++ {
		if res.Done[i] {
			o = append(o, res.Results[i].String())
		} else {
			o = append(o, "<never returned>")
		}
	}
	if sc.Late {
		if res.Done[n] {
			o = append(o, "late:"+res.Results[n].String())
		} else {
			o = append(o, "late:<never returned>")
		}
	}
	res.Outcome = strings.Join(o, " | ")
	res.FinalStore = store.Dump()
	// (taken here, inside the bubble: expiry is judged by the virtual clock)
	res.Final = map[string]string{}
	for _, k := range store.Keys() {
		if it := store.Lookup(k); it != nil {
			res.Final[k] = string(it.Val)
		}
	}
	return res
}

// durableLocks makes "wait for a lock that is held" a wait on a channel (which a synctest bubble
// counts as durably blocked) by granting every lock of rend in a model first; the real lock is then
// always free when it is taken. Pools are left alone.
type durableLocks struct {
	mu sync.Mutex
	st map[interface{}]*dlState
}

type dlState struct {
	writer  bool
	readers int
	wake    chan struct{}
}

func (d *durableLocks) Acquire(m interface{}, write bool) {
	for {
		d.mu.Lock()
		s := d.st[m]
		if s == nil {
			s = &dlState{}
			d.st[m] = s
		}
		if !s.writer && (!write || s.readers == 0) {
			if write {
				s.writer = true
			} else {
				s.readers++
			}
			d.mu.Unlock()
			return
		}
		if s.wake == nil {
			s.wake = make(chan struct{})
		}
		w := s.wake
		d.mu.Unlock()
		<-w
	}
}

func (d *durableLocks) Acquired(m interface{}, write bool) {}

func (d *durableLocks) Release(m interface{}, write bool) {
	d.mu.Lock()
	if s := d.st[m]; s != nil {
		if write {
			s.writer = false
		} else if s.readers > 0 {
			s.readers--
		}
		if s.wake != nil {
			close(s.wake)
			s.wake = nil
		}
	}
	d.mu.Unlock()
}

func (d *durableLocks) PoolGet(p *vsync.Pool) (interface{}, bool) { return nil, false }
func (d *durableLocks) PoolPut(p *vsync.Pool, x interface{}) bool { return false }
