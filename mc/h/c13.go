package h

import (
	"fmt"

	"verif/rt"
	"verif/wire"
)

func init() {
	rt.Register("C13", rt.Harness{Run: runC13, Replay: replayPool})
}

// cutOracle relaxes the differential oracle for executions with connection cuts: the pool retries
// transparently, so a command may have been executed by the backend once before the cut and once
// more after it. A refusal that is explained by the first execution having taken effect (add ->
// exists, delete -> not found) is accepted; an error outcome is always accepted.
func cutTolerant(sc PoolScenario, r *PoolResult, fs []Finding) (out []Finding) {
	for _, f := range fs {
		keep := true
		for i, op := range sc.Callers {
			if f.Sig == fmt.Sprintf("%s outcome-after-cut op=%s", sc.Harness, opTag(op)) && r.Done[i] && r.Results[i].Class == "refused" && r.Expected[i].Class == "ok" &&
				(op.Kind == "add" || op.Kind == "delete") {
				keep = false
			}
		}
		if keep {
			out = append(out, f)
		}
	}
	return
}

func runC13(c *rt.Ctx) {
	bound := 2
	if c.Thorough() {
		bound = 3
	}
	item := 0
	run := func(sc PoolScenario) {
		c.Crumb(fmt.Sprintf("callers=%d batch=%d pool=%d refusals=%d", len(sc.Callers), sc.BatchSize, sc.PoolSize, sc.Refusals), sc)
		outs := map[string]bool{}
		cutSeqs := 0
		n, trunc := exploreEvents(c, sc, bound, 6000, func(r *PoolResult) bool {
			c.Eval(1)
			c.Trace(1)
			c.Trans(int64(len(r.Trace)))
			outs[r.Outcome] = true
			if r.Cuts > 0 {
				cutSeqs++
			}
			fs := cutTolerant(sc, r, poolOracle(sc, r))
			for _, f := range fs {
				scc := sc
				scc.Choices = r.Choices()
				c.Violation(f.Sig, f.What+"\nevents: "+r.Describe(), scc)
			}
			return len(fs) == 0
		})
		if trunc {
			c.Cap("event-sequence cap reached for a pool scenario with cuts")
		}
		key := fmt.Sprintf("%d|%d|%d|%d|%v", sc.BatchSize, sc.PoolSize, sc.MaxCuts, sc.Refusals, opsStrings(sc.Callers))
		c.Distinct(key)
		if cutSeqs > 0 {
			c.Nontrivial(key)
		}
		c.State(int64(len(outs)))
		c.Add("n_event_sequences_with_cut", int64(cutSeqs))
		if item%37 == 0 {
			var o []string
			for k := range outs {
				if len(o) < 4 {
					o = append(o, k)
				}
			}
			c.Sample(map[string]interface{}{"batch_size": sc.BatchSize, "pool_size": sc.PoolSize, "max_cuts": sc.MaxCuts, "refused_dials": sc.Refusals, "callers": opsStrings(sc.Callers), "event_sequences": n, "with_cut": cutSeqs, "outcomes": o})
		}
	}
	c0, p0 := poolCommands(0)
	c1, p1 := poolCommands(1)
	c2, p2 := poolCommands(2)
	prep01 := append(append([]wire.Op{}, p0...), p1...)
	prep012 := append(append([]wire.Op{}, prep01...), p2...)
	// cuts at byte granularity inside a reply (after the header, inside and after the extras, one byte
	// before the end): every read-type command on present and empty values, alone on its connection
	for _, ps := range []int{1, 2} {
		for _, a := range c0 {
			switch a.Kind {
			case "get", "gat", "gete", "mget", "mgete":
			default:
				continue
			}
			item++
			if c.Mine(item) && !c.Expired() {
				run(PoolScenario{Harness: "C13", BatchSize: 1, PoolSize: ps, Prep: p0, Callers: []wire.Op{a}, MaxCuts: 1, FineCuts: true, Late: true})
			}
		}
		// a hit on an empty value whose flags are not zero, alone
		item++
		if c.Mine(item) && !c.Expired() {
			run(PoolScenario{Harness: "C13", BatchSize: 1, PoolSize: ps, Prep: p0, Callers: []wire.Op{{Kind: "get", Key: "c0-h2"}}, MaxCuts: 1, FineCuts: true, Late: true})
			run(PoolScenario{Harness: "C13", BatchSize: 1, PoolSize: ps, Prep: p0, Callers: []wire.Op{{Kind: "gete", Key: "c0-h2"}}, MaxCuts: 1, FineCuts: true, Late: true})
			run(PoolScenario{Harness: "C13", BatchSize: 1, PoolSize: ps, Prep: p0, Callers: []wire.Op{{Kind: "gat", Key: "c0-h2", TTL: 77}}, MaxCuts: 1, FineCuts: true, Late: true})
		}
	}
	// one-direction cuts: the backend shuts down its sending side only and stops reading; a batch
	// larger than the socket buffer is then blocked in its write until the pool closes the
	// connection itself. Every command alone, and a big set beside a second caller.
	bigSet := wire.Op{Kind: "set", Key: "c0-big", Val: string(wire.GenValue(300, 5)), Flags: 3}
	for _, ps := range []int{1, 2} {
		for _, refusals := range []int{0, 2} {
			item++
			if c.Mine(item) && !c.Expired() {
				run(PoolScenario{Harness: "C13", BatchSize: 1, PoolSize: ps, Prep: p0, Callers: []wire.Op{bigSet}, MaxCuts: 1, Refusals: refusals, HalfClose: true, StallBytes: 20, Late: true})
				run(PoolScenario{Harness: "C13", BatchSize: 2, PoolSize: ps, Prep: p0, Callers: []wire.Op{bigSet, {Kind: "get", Key: "c0-h"}}, MaxCuts: 1, Refusals: refusals, HalfClose: true, StallBytes: 20, Late: true})
			}
			for i, a := range c0 {
				if i%3 != 1 && !c.Thorough() {
					continue
				}
				item++
				if c.Mine(item) && !c.Expired() {
					run(PoolScenario{Harness: "C13", BatchSize: 1, PoolSize: ps, Prep: p0, Callers: []wire.Op{a}, MaxCuts: 1, Refusals: refusals, HalfClose: true, StallBytes: 20, Late: true})
				}
			}
		}
	}
	// the pool changes shape while connections are lost: its monitor adds a pooled connection
	// (evaluation is an event) before or after a cut; and a cold start (the pool's first connection
	// is refused once while the callers arrive) followed by a cut of that first connection
	for _, bs := range []int{1, 2} {
		for i, a := range c0 {
			if i%4 != 2 && !c.Thorough() {
				continue
			}
			item++
			if c.Mine(item) && !c.Expired() {
				b := c1[(i*7+3)%len(c1)]
				run(PoolScenario{Harness: "C13", BatchSize: bs, PoolSize: 1, Prep: prep01, Callers: []wire.Op{a, b}, MaxCuts: 1, Monitor: 1, Late: true})
				run(PoolScenario{Harness: "C13", BatchSize: bs, PoolSize: 1, Prep: prep01, Callers: []wire.Op{a, b}, MaxCuts: 1, ColdStart: 1, Late: true})
			}
		}
	}
	// a long outage: the backend refuses enough dials in a row for the reconnect back-off to reach
	// its cap (and stay there for a few more attempts) before it accepts again
	for _, ps := range []int{1, 2} {
		for i, a := range c0 {
			if i%3 != 0 && !c.Thorough() {
				continue
			}
			item++
			if c.Mine(item) && !c.Expired() {
				run(PoolScenario{Harness: "C13", BatchSize: 1, PoolSize: ps, Prep: p0, Callers: []wire.Op{a}, MaxCuts: 1, Refusals: 14, Late: true})
			}
		}
	}
	for _, refusals := range []int{0, 2} {
		for _, ps := range []int{1, 2} {
			// one caller: every command variant, cut at every position
			for _, a := range c0 {
				item++
				if c.Mine(item) && !c.Expired() {
					run(PoolScenario{Harness: "C13", BatchSize: 1, PoolSize: ps, Prep: p0, Callers: []wire.Op{a}, MaxCuts: 1, Refusals: refusals, Late: true})
				}
			}
			// two callers sharing a batch
			for i, a := range c0 {
				for j, b := range c1 {
					if (i+j)%3 != 0 && !c.Thorough() {
						continue
					}
					item++
					if c.Mine(item) && !c.Expired() {
						run(PoolScenario{Harness: "C13", BatchSize: 2, PoolSize: ps, Prep: prep01, Callers: []wire.Op{a, b}, MaxCuts: 1, Refusals: refusals, Late: true})
					}
				}
			}
			// three callers, repeated cuts
			for i := range c0 {
				item++
				if c.Mine(item) && !c.Expired() {
					callers := []wire.Op{c0[i], c1[(i*7+3)%len(c1)], c2[(i*5+11)%len(c2)]}
					run(PoolScenario{Harness: "C13", BatchSize: 3, PoolSize: ps, Prep: prep012, Callers: callers, MaxCuts: 2, Refusals: refusals, Late: true})
				}
			}
		}
	}
	// goroutine-level interleavings around one cut: the batcher is parked at the yield points the
	// overlay injects before its uses of the pooled connection (between handing a batch to the
	// reader and writing it), and resuming it is an event; a cut plus one delayed resume lets the
	// reader's recovery replace the connection underneath a batch that is still being written
	for _, refusals := range []int{0} {
		for _, bs := range []int{1, 2} {
			for i, a := range c0 {
				if i%3 != 0 && !c.Thorough() {
					continue
				}
				item++
				if c.Mine(item) && !c.Expired() {
					callers := []wire.Op{a}
					prep := p0
					if bs == 2 {
						callers = append(callers, c1[(i*7+3)%len(c1)])
						prep = prep01
					}
					run(PoolScenario{Harness: "C13", BatchSize: bs, PoolSize: 1, Prep: prep, Callers: callers, MaxCuts: 1, Refusals: refusals, Late: true, Yields: []string{"batcher"}})
					if c.Thorough() && i%6 == 0 {
						// all three goroutines of the pooled connection park at their uses of it
						run(PoolScenario{Harness: "C13", BatchSize: bs, PoolSize: 1, Prep: prep, Callers: callers, MaxCuts: 1, Refusals: refusals, Late: true, Yields: []string{"batcher", "reader", "reconnect"}})
					}
				}
			}
		}
	}
	c.Set("deviation_bound", bound)
}
