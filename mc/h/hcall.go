package h

import (
	"fmt"
	"sort"

	"github.com/netflix/rend/common"
	"github.com/netflix/rend/handlers"

	"verif/fakemc"
	"verif/refmodel"
	"verif/wire"
)

// HRes is the outcome of one command at the handlers.Handler interface.
type HRes struct {
	Class  string // ok | refused | error | values
	Detail string
	Hits   []wire.Hit
	Misses int
	Err    string // error delivered on the error channel of a get
	// Proto lists departures from the get-answer protocol: an answer whose quiet flag is not the
	// one requested for that key, a key answered twice, an answer with an unknown opaque.
	Proto string
}

func (r HRes) String() string {
	if r.Class == "values" {
		hs := ""
		sorted := append([]wire.Hit(nil), r.Hits...)
		sort.SliceStable(sorted, func(i, j int) bool { return sorted[i].Idx < sorted[j].Idx })
		for _, h := range sorted {
			v := h.Val
			if len(v) > 12 {
				v = fmt.Sprintf("%s..(%d)", v[:12], len(v))
			}
			hs += fmt.Sprintf("{%d %q f=%x ttl=%d}", h.Idx, v, h.Flags, h.TTL)
		}
		return fmt.Sprintf("values[%s] misses=%d err=%s %s", hs, r.Misses, r.Err, r.Proto)
	}
	return r.Class + "(" + r.Detail + ")"
}

func classOf(err error) (string, string) {
	switch err {
	case nil:
		return "ok", ""
	case common.ErrKeyNotFound, common.ErrKeyExists, common.ErrItemNotStored:
		return "refused", err.Error()
	}
	return "error", err.Error()
}

// Materialize copies the bytes the handler returned into the result. CallHandler does it once all
// responses of the call have been received; CallHandlerDeferred leaves it to the caller (the pool
// harness looks at the bytes only after every other caller has been served too).
func (r *HRes) Materialize() {
	for i := range r.Hits {
		if r.Hits[i].Raw != nil {
			r.Hits[i].Val = string(r.Hits[i].Raw)
			r.Hits[i].Raw = nil
		}
	}
}

// CallHandler performs op through the handler interface the way an orchestrator would.
func CallHandler(h handlers.Handler, op wire.Op) (res HRes) {
	res = CallHandlerDeferred(h, op)
	res.Materialize()
	return res
}

// CallGuarded is CallHandler on a goroutine of its own; ok=false means the backend connection
// recorded a read that can never be satisfied (or a spin on a closed connection): the call will
// never return and is abandoned.
func CallGuarded(conn *fakemc.Conn, h handlers.Handler, op wire.Op) (res HRes, ok bool) {
	done := make(chan struct{})
	var r HRes
	fin := false
	go func() {
		defer close(done)
		r = CallHandler(h, op)
		fin = true
	}()
	select {
	case <-done:
		return r, fin
	case <-conn.Dead:
		return HRes{Class: "hung"}, false
	}
}

// CallHandlerDeferred is CallHandler without looking at the returned value bytes yet.
func CallHandlerDeferred(h handlers.Handler, op wire.Op) (res HRes) {
	key := op.KeyBytes()
	// QuietW: what the orchestrators hand down for SETQ, DELETEQ, ...: the same call with the quiet
	// flag set (the reply is still the handler's return value)
	sr := common.SetRequest{Key: key, Data: op.Value(), Flags: op.Flags, Exptime: op.TTL, Quiet: op.QuietW}
	switch op.Kind {
	case "set":
		res.Class, res.Detail = classOf(h.Set(sr))
	case "add":
		res.Class, res.Detail = classOf(h.Add(sr))
	case "replace":
		res.Class, res.Detail = classOf(h.Replace(sr))
	case "append":
		res.Class, res.Detail = classOf(h.Append(sr))
	case "prepend":
		res.Class, res.Detail = classOf(h.Prepend(sr))
	case "delete":
		res.Class, res.Detail = classOf(h.Delete(common.DeleteRequest{Key: key, Quiet: op.QuietW}))
	case "touch":
		res.Class, res.Detail = classOf(h.Touch(common.TouchRequest{Key: key, Exptime: op.TTL}))
	case "gat":
		r, err := h.GAT(common.GATRequest{Key: key, Exptime: op.TTL})
		res.Class = "values"
		if err != nil {
			res.Class, res.Detail = "error", err.Error()
		} else if r.Miss {
			res.Misses = 1
		} else {
			res.Hits = []wire.Hit{{Key: op.Key, Raw: nonNil(r.Data), Flags: r.Flags, Idx: 0}}
		}
	case "get", "mget", "gete", "mgete":
		keys := op.Keys
		if op.Kind != "mget" && op.Kind != "mgete" {
			keys = []string{op.Key}
		}
		req := common.GetRequest{}
		for i, k := range keys {
			req.Keys = append(req.Keys, wire.KeySlice(k, op.Spare))
			if op.Opaque0 {
				req.Opaques = append(req.Opaques, 0) // what the text protocol's multi-key get produces
			} else {
				req.Opaques = append(req.Opaques, uint32(100+i))
			}
			req.Quiet = append(req.Quiet, (op.Kind == "mget" || op.Kind == "mgete") && len(op.Quiet) == len(keys) && op.Quiet[i])
		}
		req.NoopEnd = (op.Kind == "mget" || op.Kind == "mgete") && op.NoopEnd
		res.Class = "values"
		idx := func(opq uint32) int {
			if op.Opaque0 {
				return -1
			}
			return int(opq) - 100
		}
		answered := make([]int, len(keys))
		byKey := map[string]int{}
		for _, k := range keys {
			byKey[k]++
		}
		defer func() {
			// all opaques equal: answers are matched to requests by key, so many per key
			if op.Opaque0 && res.Err == "" {
				for _, k := range keys {
					if n := byKey[k]; n != 0 {
						res.Proto += fmt.Sprintf("key-%s-answered-%d-times-too-few;", k, n)
						byKey[k] = 0
					}
				}
			}
		}()
		note := func(opq uint32, quiet bool, key []byte) {
			if op.Opaque0 {
				if opq != 0 {
					res.Proto += fmt.Sprintf("unknown-opaque-%d;", opq)
				}
				byKey[string(key)]--
				if byKey[string(key)] == -1 {
					res.Proto += fmt.Sprintf("key-%s-answered-too-often;", key)
				}
				return
			}
			i := idx(opq)
			switch {
			case i < 0 || i >= len(keys):
				res.Proto += fmt.Sprintf("unknown-opaque-%d;", opq)
			default:
				answered[i]++
				if answered[i] == 2 {
					res.Proto += fmt.Sprintf("key-%d-answered-again;", i)
				}
				if quiet != req.Quiet[i] {
					res.Proto += fmt.Sprintf("key-%d-quiet=%v-requested-%v;", i, quiet, req.Quiet[i])
				}
			}
		}
		if op.Kind == "gete" || op.Kind == "mgete" {
			rc, ec := h.GetE(req)
			for rc != nil || ec != nil {
				select {
				case r, ok := <-rc:
					if ok {
						note(r.Opaque, r.Quiet, r.Key)
					}
					if !ok {
						rc = nil
					} else if r.Miss {
						res.Misses++
					} else {
						res.Hits = append(res.Hits, wire.Hit{Key: string(r.Key), Raw: nonNil(r.Data), Flags: r.Flags, TTL: r.Exptime, Idx: idx(r.Opaque)})
					}
				case e, ok := <-ec:
					if !ok {
						ec = nil
					} else {
						res.Err = e.Error()
					}
				}
			}
		} else {
			rc, ec := h.Get(req)
			for rc != nil || ec != nil {
				select {
				case r, ok := <-rc:
					if ok {
						note(r.Opaque, r.Quiet, r.Key)
					}
					if !ok {
						rc = nil
					} else if r.Miss {
						res.Misses++
					} else {
						res.Hits = append(res.Hits, wire.Hit{Key: string(r.Key), Raw: nonNil(r.Data), Flags: r.Flags, Idx: idx(r.Opaque)})
					}
				case e, ok := <-ec:
					if !ok {
						ec = nil
					} else {
						res.Err = e.Error()
					}
				}
			}
		}
		if res.Err != "" {
			res.Class, res.Detail = "error", res.Err
		}
	default:
		panic("CallHandler: " + op.Kind)
	}
	return res
}

// ExpectH applies op to the model and returns the expected handler-level outcome.
func ExpectH(m *refmodel.Model, op wire.Op) HRes {
	o := op
	o.Val = string(op.Value())
	o.VGen = false
	if o.Kind == "mget" && len(o.Quiet) != len(o.Keys) {
		o.Quiet = make([]bool, len(o.Keys))
	}
	e := ApplyModel(m, "binary", o)
	r := HRes{Class: e.Class, Misses: e.Misses}
	for _, h := range e.Hits {
		r.Hits = append(r.Hits, h)
	}
	if e.Class == "values" {
		n := 1
		if op.Kind == "mget" {
			n = len(op.Keys)
		}
		r.Misses = n - len(e.Hits)
	}
	return r
}

// DiffH compares handler-level outcomes.
func DiffH(e, r HRes) (clause, detail string) {
	if e.Class != r.Class {
		return "outcome", fmt.Sprintf("expected %s, got %s", e, r)
	}
	if e.Class == "values" {
		if hitsKey(e.Hits) != hitsKey(r.Hits) {
			return "value", fmt.Sprintf("expected %s, got %s", e, r)
		}
		if e.Misses != r.Misses {
			return "miss-count", fmt.Sprintf("expected %d misses, got %d", e.Misses, r.Misses)
		}
		if r.Proto != "" && e.Proto == "" {
			return "answer-protocol", "the answers of a multi-key get depart from what was asked: " + r.Proto
		}
	}
	return "", ""
}

func nonNil(b []byte) []byte {
	if b == nil {
		return []byte{}
	}
	return b
}
