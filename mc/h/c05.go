package h

import (
	"fmt"
	"strconv"

	"verif/rt"
	"verif/wire"
)

func init() {
	rt.Register("C05", rt.Harness{Run: runC05, Replay: replayChunkLoss})
}

// lossScenario: write A; optionally overwrite with B; remove a subset of the key's entries; read.
func lossOracle(written [][]byte, flags []uint32, suffix []byte, isPrefix bool) func(r HRes) (string, string) {
	return func(r HRes) (string, string) {
		if r.Class == "error" {
			return "", "" // an error outcome returns no bytes at all
		}
		for _, h := range r.Hits {
			ok := false
			for i, w := range written {
				if h.Val == string(w) && h.Flags == flags[i] {
					ok = true
				}
				if suffix != nil {
					cat := string(w) + string(suffix)
					if isPrefix {
						cat = string(suffix) + string(w)
					}
					if h.Val == cat && h.Flags == flags[i] {
						ok = true
					}
				}
			}
			if !ok {
				return "torn-value", fmt.Sprintf("returned %d bytes with flags %x that no single set wrote in full (written lengths %v)", len(h.Val), h.Flags, lens(written))
			}
		}
		return "", ""
	}
}

func lens(w [][]byte) []int {
	out := make([]int, len(w))
	for i := range w {
		out[i] = len(w[i])
	}
	return out
}

type lossCase struct {
	NA, NB int    // chunk counts of A and B (NB = -1: no overwrite)
	Mask   int    // bit 0 = metadata, bit i+1 = chunk i
	Read   string // get | gat | append | prepend
}

func buildLoss(lc lossCase) (ChunkScenario, func(r HRes) (string, string), int) {
	key := "k"
	p := payloadFor(len(key))
	size := func(n int) int {
		if n == 0 {
			return 0
		}
		return (n-1)*p + p/2 + 1
	}
	ops := []wire.Op{{Kind: "set", Key: key, VGen: true, VLen: size(lc.NA), VSeed: 11, Flags: 0xA}}
	written := [][]byte{ops[0].Value()}
	flags := []uint32{0xA}
	n := lc.NA
	if lc.NB >= 0 {
		o := wire.Op{Kind: "set", Key: key, VGen: true, VLen: size(lc.NB), VSeed: 22, Flags: 0xB}
		ops = append(ops, o)
		written = append(written, o.Value())
		flags = append(flags, 0xB)
		if lc.NB > n {
			n = lc.NB
		}
	}
	if lc.Mask&1 != 0 {
		ops = append(ops, wire.Op{Kind: "evict", Key: key + "-meta"})
	}
	for i := 0; i < n; i++ {
		if lc.Mask&(2<<uint(i)) != 0 {
			ops = append(ops, wire.Op{Kind: "evict", Key: key + "-" + strconv.Itoa(i)})
		}
	}
	var suffix []byte
	readIdx := len(ops)
	switch lc.Read {
	case "get", "gat":
		ops = append(ops, wire.Op{Kind: lc.Read, Key: key, TTL: 100})
	default:
		o := wire.Op{Kind: lc.Read, Key: key, VGen: true, VLen: 5, VSeed: 33}
		suffix = o.Value()
		ops = append(ops, o, wire.Op{Kind: "get", Key: key})
	}
	return ChunkScenario{Harness: "C05", Ops: ops, Lossy: true}, lossOracle(written, flags, suffix, lc.Read == "prepend"), readIdx
}

func runLoss(lc lossCase) ([]Finding, []string, ChunkScenario) {
	sc, oracle, readIdx := buildLoss(lc)
	r := RunChunk(sc, ChunkOpts{NoModel: true, NoPhys: true, AfterEach: func(i int, op wire.Op, st *fakemcStore, m *refModel, res HRes) (string, string) {
		if i < readIdx {
			return "", ""
		}
		return oracle(res)
	}})
	return r.Findings, r.Results, sc
}

func runC05(c *rt.Ctx) {
	maxN := 4
	if c.Thorough() {
		maxN = 6
	}
	item := 0
	for na := 0; na <= maxN; na++ {
		for nb := -1; nb <= maxN; nb++ {
			if nb >= 0 && !(nb == na || nb == na-1 || nb == na+1 || nb == 0 || nb == maxN) {
				continue
			}
			n := na
			if nb > n {
				n = nb
			}
			for mask := 0; mask < 1<<uint(n+1); mask++ {
				item++
				if !c.Mine(item) {
					continue
				}
				if c.Expired() {
					return
				}
				for _, rd := range []string{"get", "gat", "append", "prepend"} {
					lc := lossCase{NA: na, NB: nb, Mask: mask, Read: rd}
					var fs []Finding
					var results []string
					var sc ChunkScenario
					InBubble(c.T, func() { fs, results, sc = runLoss(lc) })
					c.Eval(1)
					c.Trace(1)
					c.Distinct(fmt.Sprint(lc))
					if mask != 0 && mask&1 == 0 {
						c.Nontrivial(fmt.Sprint(lc)) // some chunk lost while the metadata survives
					}
					if item%53 == 0 && rd == "get" {
						c.Sample(map[string]interface{}{"case": lc, "ops": opsStrings(sc.Ops), "results": results})
					}
					for _, f := range fs {
						c.Violation(f.Sig, f.What, sc)
					}
				}
			}
		}
	}
	c.Set("max_chunks", maxN)
}
