package h

import (
	"encoding/json"
	"fmt"
	"github.com/netflix/rend/verifshim/vsync"
	"strconv"

	"github.com/netflix/rend/handlers/memcached/chunked"

	"verif/fakemc"
	"verif/rt"
	"verif/sched"
	"verif/wire"
)

func init() {
	rt.Register("C05", rt.Harness{Run: runC05, Replay: func(c *rt.Ctx, raw json.RawMessage) string {
		var probe struct {
			Race *ChunkRace `json:"race"`
		}
		if json.Unmarshal(raw, &probe) == nil && probe.Race != nil {
			var r *chunkRaceResult
			sched.Bubble(c.T, func() { r = runChunkRace(*probe.Race, probe.Race.Choices) })
			out := fmt.Sprintf("race %+v\nschedule: %s\noutcome: %s\n", *probe.Race, r.S.Describe(), r.Outcome)
			if len(r.Findings) == 0 {
				return out + "OK: no finding"
			}
			s := "VIOLATION reproduced:\n"
			for _, f := range r.Findings {
				s += "  " + f.Sig + " :: " + f.What + "\n"
			}
			return s + out
		}
		return replayChunkLoss(c, raw)
	}})
}

// lossScenario: write A; optionally overwrite with B; remove a subset of the key's entries; read.
func lossOracle(written [][]byte, flags []uint32, suffix []byte, isPrefix bool) func(r HRes) (string, string) {
	return func(r HRes) (string, string) {
		if r.Class == "error" {
			return "", "" // an error outcome returns no bytes at all
		}
		for _, h := range r.Hits {
			ok := false
			for i, w := range written {
				if h.Val == string(w) && h.Flags == flags[i] {
					ok = true
				}
				if suffix != nil {
					cat := string(w) + string(suffix)
					if isPrefix {
						cat = string(suffix) + string(w)
					}
					if h.Val == cat && h.Flags == flags[i] {
						ok = true
					}
				}
			}
			if !ok {
				return "torn-value", fmt.Sprintf("returned %d bytes with flags %x that no single set wrote in full (written lengths %v)", len(h.Val), h.Flags, lens(written))
			}
		}
		return "", ""
	}
}

// multiKeyOracle: every answer of a get naming several keys must be a value written in full for the
// key it answers, with that write's flags.
func multiKeyOracle(ops []wire.Op) func(op wire.Op, res HRes) (string, string) {
	type wv struct {
		val   string
		flags uint32
	}
	written := map[string][]wv{}
	for _, o := range ops {
		if o.Kind == "set" {
			written[o.Key] = append(written[o.Key], wv{string(o.Value()), o.Flags})
		}
	}
	return func(op wire.Op, res HRes) (string, string) {
		if op.Kind != "mget" || res.Class == "error" {
			return "", ""
		}
		for _, h := range res.Hits {
			k := h.Key
			if h.Idx >= 0 && h.Idx < len(op.Keys) {
				k = op.Keys[h.Idx]
			}
			ok := false
			for _, w := range written[k] {
				ok = ok || (h.Val == w.val && h.Flags == w.flags)
			}
			if !ok {
				return "torn-value multi-key", fmt.Sprintf("get of %v: the answer for %q has %d bytes with flags %x, which is not a value written in full for that key", op.Keys, k, len(h.Val), h.Flags)
			}
		}
		return "", ""
	}
}

func lens(w [][]byte) []int {
	out := make([]int, len(w))
	for i := range w {
		out[i] = len(w[i])
	}
	return out
}

type lossCase struct {
	NA, NB int    // chunk counts of A and B (NB = -1: no overwrite)
	Mask   int    // bit 0 = metadata, bit i+1 = chunk i
	Read   string // get | gat | append | prepend
	// Lose lists further lost entries by chunk index (-1 = metadata): values with more chunks than
	// a mask has bits
	Lose []int `json:",omitempty"`
}

func (lc lossCase) lost(i int) bool {
	for _, x := range lc.Lose {
		if x == i {
			return true
		}
	}
	if i < 0 {
		return lc.Mask&1 != 0
	}
	return i < 60 && lc.Mask&(2<<uint(i)) != 0
}

func buildLoss(lc lossCase) (ChunkScenario, func(r HRes) (string, string), int) {
	key := "k"
	p := payloadFor(len(key))
	size := func(n int) int {
		if n == 0 {
			return 0
		}
		return (n-1)*p + p/2 + 1
	}
	ops := []wire.Op{{Kind: "set", Key: key, VGen: true, VLen: size(lc.NA), VSeed: 11, Flags: 0xA}}
	written := [][]byte{ops[0].Value()}
	flags := []uint32{0xA}
	n := lc.NA
	if lc.NB >= 0 {
		o := wire.Op{Kind: "set", Key: key, VGen: true, VLen: size(lc.NB), VSeed: 22, Flags: 0xB}
		ops = append(ops, o)
		written = append(written, o.Value())
		flags = append(flags, 0xB)
		if lc.NB > n {
			n = lc.NB
		}
	}
	if lc.lost(-1) {
		ops = append(ops, wire.Op{Kind: "evict", Key: key + "-meta"})
	}
	for i := 0; i < n; i++ {
		if lc.lost(i) {
			ops = append(ops, wire.Op{Kind: "evict", Key: key + "-" + strconv.Itoa(i)})
		}
	}
	var suffix []byte
	readIdx := len(ops)
	switch lc.Read {
	case "get", "gat":
		ops = append(ops, wire.Op{Kind: lc.Read, Key: key, TTL: 100})
	default:
		o := wire.Op{Kind: lc.Read, Key: key, VGen: true, VLen: 5, VSeed: 33}
		suffix = o.Value()
		ops = append(ops, o, wire.Op{Kind: "get", Key: key})
	}
	return ChunkScenario{Harness: "C05", Ops: ops, Lossy: true}, lossOracle(written, flags, suffix, lc.Read == "prepend"), readIdx
}

func runLoss(lc lossCase) ([]Finding, []string, ChunkScenario) {
	sc, oracle, readIdx := buildLoss(lc)
	r := RunChunk(sc, ChunkOpts{NoModel: true, NoPhys: true, AfterEach: func(i int, op wire.Op, st *fakemcStore, m *refModel, res HRes) (string, string) {
		if i < readIdx {
			return "", ""
		}
		return oracle(res)
	}})
	return r.Findings, r.Results, sc
}

func runC05(c *rt.Ctx) {
	maxN := 4
	if c.Thorough() {
		maxN = 6
	}
	item := 0
	for na := 0; na <= maxN; na++ {
		for nb := -1; nb <= maxN; nb++ {
			if nb >= 0 && !(nb == na || nb == na-1 || nb == na+1 || nb == 0 || nb == maxN) {
				continue
			}
			n := na
			if nb > n {
				n = nb
			}
			for mask := 0; mask < 1<<uint(n+1); mask++ {
				item++
				if !c.Mine(item) {
					continue
				}
				if c.Expired() {
					return
				}
				for _, rd := range []string{"get", "gat", "append", "prepend"} {
					lc := lossCase{NA: na, NB: nb, Mask: mask, Read: rd}
					var fs []Finding
					var results []string
					var sc ChunkScenario
					InBubble(c.T, func() { fs, results, sc = runLoss(lc) })
					c.Eval(1)
					c.Trace(1)
					c.Distinct(fmt.Sprint(lc))
					if mask != 0 && mask&1 == 0 {
						c.Nontrivial(fmt.Sprint(lc)) // some chunk lost while the metadata survives
					}
					if item%53 == 0 && rd == "get" {
						c.Sample(map[string]interface{}{"case": lc, "ops": opsStrings(sc.Ops), "results": results})
					}
					for _, f := range fs {
						c.Violation(f.Sig, f.What, sc)
					}
				}
			}
		}
	}
	// values of many chunks (chunk counts around powers of two, 100 and the byte boundary): every
	// single lost chunk, and the first and last chunk of every window of 8 together with one further
	// chunk, then each kind of read
	many := []int{7, 31, 32, 33, 64, 65, 100, 101}
	if c.Thorough() {
		many = append(many, 8, 16, 17, 34, 63, 99, 127, 128, 129, 255, 256, 257)
	}
	for _, n := range many {
		var cases [][]int
		for i := 0; i < n; i++ {
			cases = append(cases, []int{i})
		}
		for i := 0; i+8 < n; i += 8 {
			cases = append(cases, []int{i, n - 1}, []int{i + 7, 0})
		}
		for _, lose := range cases {
			item++
			if !c.Mine(item) {
				continue
			}
			if c.Expired() {
				return
			}
			for _, rd := range []string{"get", "gat", "append"} {
				lc := lossCase{NA: n, NB: -1, Read: rd, Lose: lose}
				var fs []Finding
				var sc ChunkScenario
				InBubble(c.T, func() { fs, _, sc = runLoss(lc) })
				c.Eval(1)
				c.Trace(1)
				c.Distinct(fmt.Sprint(lc))
				c.Nontrivial(fmt.Sprint(lc))
				for _, f := range fs {
					c.Violation(f.Sig+" many-chunks", f.What, sc)
				}
			}
		}
	}
	// one get naming several keys: each value returned must be what a single set wrote in full for
	// THAT key (a handler that reads the next key into memory an earlier answer still refers to
	// patches two values together), with nothing lost and with every single backend entry lost
	{
		ka, kb := "ka", "kb"
		pk := payloadFor(len(ka))
		size := func(n int) int {
			if n == 0 {
				return 0
			}
			return (n-1)*pk + pk/2 + 1
		}
		for na := 0; na <= 3; na++ {
			for nb := 0; nb <= 3; nb++ {
				item++
				if !c.Mine(item) {
					continue
				}
				oa := wire.Op{Kind: "set", Key: ka, VGen: true, VLen: size(na), VSeed: 41, Flags: 0xA}
				ob := wire.Op{Kind: "set", Key: kb, VGen: true, VLen: size(nb) + 3, VSeed: 42, Flags: 0xB}
				losses := []string{""}
				losses = append(losses, ka+"-meta", kb+"-meta")
				for i := 0; i < na; i++ {
					losses = append(losses, ka+"-"+strconv.Itoa(i))
				}
				for i := 0; i <= nb; i++ {
					losses = append(losses, kb+"-"+strconv.Itoa(i))
				}
				for _, lost := range losses {
					for _, keys := range [][]string{{ka, kb}, {kb, ka}, {ka, kb, ka}, {kb, kb, ka}} {
						ops := []wire.Op{oa, ob}
						if lost != "" {
							ops = append(ops, wire.Op{Kind: "evict", Key: lost})
						}
						ops = append(ops, wire.Op{Kind: "mget", Keys: keys}, wire.Op{Kind: "mget", Keys: keys, Quiet: []bool{true, true, true}[:len(keys)], NoopEnd: true})
						sc := ChunkScenario{Harness: "C05", Ops: ops, Lossy: true}
						var r *ChunkResult
						oracle := multiKeyOracle(ops)
						InBubble(c.T, func() {
							r = RunChunk(sc, ChunkOpts{NoModel: true, NoPhys: true, AfterEach: func(i int, op wire.Op, st *fakemcStore, m *refModel, res HRes) (string, string) {
								return oracle(op, res)
							}})
						})
						c.Eval(1)
						c.Trace(1)
						c.Distinct(fmt.Sprintf("multi|%d|%d|%s|%v", na, nb, lost, keys))
						if lost != "" {
							c.Nontrivial(fmt.Sprintf("multi|%d|%d|%s|%v", na, nb, lost, keys))
						}
						for _, f := range r.Findings {
							c.Violation(f.Sig, f.What, sc)
						}
					}
				}
			}
		}
	}
	// the mechanism the property rests on: every write of a value carries a token no other write in
	// the life of the process has carried (two writes with one token cannot be told apart once their
	// entries mix). 6 000 writes (thorough 70 000) over two connections and changing keys; the tokens
	// in the metadata the backend receives must be pairwise distinct.
	if c.Mine(7) {
		InBubble(c.T, func() {
			st := fakemc.NewStore("L1")
			hs := []chunked.Handler{chunked.NewHandler(fakemc.NewConn(st, "t1")), chunked.NewHandler(fakemc.NewConn(st, "t2"))}
			n := 6000
			if c.Thorough() {
				n = 70000
			}
			seen := map[string]int{}
			for i := 0; i < n; i++ {
				k := fmt.Sprintf("tok-%d", i%37)
				kind := "set"
				if i%5 == 3 {
					kind = "append"
				}
				CallHandler(hs[i%2], wire.Op{Kind: kind, Key: k, Val: fmt.Sprintf("v%d", i), Flags: uint32(i)})
				c.Eval(1)
				meta := st.Lookup(k + "-meta")
				if meta == nil || len(meta.Val) < 40 {
					continue
				}
				tok := string(meta.Val[24:40])
				if j, ok := seen[tok]; ok && j != i {
					c.Violation("C05 token-reused", fmt.Sprintf("write number %d carries the same token as write number %d (%d writes apart): entries of the two can no longer be told apart", i, j, i-j), map[string]interface{}{"first": j, "second": i})
					break
				}
				seen[tok] = i
			}
			c.Distinct("tokens")
			c.Nontrivial("tokens")
		})
	}
	c.Set("max_chunks", maxN)
	exploreChunkRaces(c, &item)
}

// ---------------------------------------------------------------------------------------------
// (b) two writers and a reader on the same key through separate connections, every interleaving
// at backend-request granularity; (c) every final state followed by every single-entry loss.

// ChunkRace is the concurrent scenario.
type ChunkRace struct {
	// Mode "" = two setters and a reader; "sameconn" = the two sets go through one connection; "append" / "prepend" = value A exists, one connection
	// appends/prepends to it (a read-modify-write of the whole value) while another reads
	Mode    string `json:"mode,omitempty"`
	NA, NB  int    `json:"na_nb"`
	Reader  string `json:"reader"` // get | gat | append
	Choices []int  `json:"choices"`
	// KindB: the second writer's command when it is not a set (replace | add; either may be refused,
	// depending on where the first writer is)
	KindB string `json:"kindB,omitempty"`
}

type chunkRaceResult struct {
	S        *sched.Sched
	Findings []Finding
	Outcome  string
}

func runChunkRace(sc ChunkRace, prefix []int) *chunkRaceResult {
	if sc.Mode == "bystander" {
		return runChunkBystander(sc, prefix)
	}
	res := &chunkRaceResult{}
	vsync.TakeDoublePuts()
	defer func() {
		if f := doublePut("C05"); f != nil {
			res.Findings = append(res.Findings, *f)
		}
	}()
	key := "k"
	p := payloadFor(len(key))
	size := func(n int) int { return (n-1)*p + p/3 + 1 }
	st := fakemc.NewStore("L1")
	s := sched.New(prefix)
	res.S = s
	mk := func(name string) (chunked.Handler, *fakemc.Conn) {
		c := fakemc.NewConn(st, name)
		c.Before = func(c *fakemc.Conn, f *fakemc.Frame) { s.Point(name+":"+frameTag(f), nil) }
		return chunked.NewHandler(c), c
	}
	opA := wire.Op{Kind: "set", Key: key, VGen: true, VLen: size(sc.NA), VSeed: 71, Flags: 0xA}
	opB := wire.Op{Kind: "set", Key: key, VGen: true, VLen: size(sc.NB), VSeed: 72, Flags: 0xB}
	if sc.KindB != "" {
		opB.Kind = sc.KindB
	}
	written := [][]byte{opA.Value(), opB.Value()}
	flags := []uint32{0xA, 0xB}
	var suffix []byte
	rd := wire.Op{Kind: sc.Reader, Key: key, TTL: 100}
	if sc.Reader == "append" {
		rd = wire.Op{Kind: "append", Key: key, VGen: true, VLen: 4, VSeed: 73}
		suffix = rd.Value()
	}
	oracle := lossOracle(written, flags, suffix, false)
	var conns []*fakemc.Conn
	var results [4]HRes
	hA, cA := mk("A")
	hB, cB := mk("B")
	hR, cR := mk("R")
	conns = append(conns, cA, cB, cR)
	if sc.Mode == "sameconn" {
		// both values are written one after the other through ONE connection while the reader runs
		s.Go(0, func() { results[0] = HRes{Class: "ok"} })
		opB2 := opB
		opB = wire.Op{}
		s.Go(1, func() { results[0] = CallHandler(hB, opA); results[1] = CallHandler(hB, opB2) })
	} else if sc.Mode != "" {
		// A is written beforehand (no scheduling); B's connection extends it by a few bytes so that
		// the chunk count stays the same; the reader may see A or the extended value, or miss
		cA.Before = nil
		CallHandler(hA, opA)
		ext := wire.Op{Kind: sc.Mode, Key: key, VGen: true, VLen: 7, VSeed: 74}
		written = [][]byte{opA.Value()}
		flags = []uint32{0xA}
		oracle = lossOracle(written, flags, ext.Value(), sc.Mode == "prepend")
		opB = ext
		s.Go(0, func() { results[0] = HRes{Class: "ok"} })
	} else {
		s.Go(0, func() { results[0] = CallHandler(hA, opA) })
	}
	if sc.Mode != "sameconn" {
		s.Go(1, func() { results[1] = CallHandler(hB, opB) })
	}
	s.Go(2, func() {
		results[2] = CallHandler(hR, rd)
		if sc.Reader == "append" {
			results[3] = CallHandler(hR, wire.Op{Kind: "get", Key: key})
		}
	})
	s.Run()
	add := func(clause, what string) {
		w := "set/set"
		if sc.Mode != "" {
			w = sc.Mode
		}
		if sc.KindB != "" {
			w = "set/" + sc.KindB
		}
		res.Findings = append(res.Findings, Finding{Sig: fmt.Sprintf("C05 %s writers=%s reader=%s", clause, w, sc.Reader), What: what, Clause: clause})
	}
	if s.Deadlock {
		add("deadlock", s.DeadlockInfo)
		return res
	}
	for _, c := range conns {
		if c.Hung || c.Spun {
			add("backend-stream", fmt.Sprintf("connection %s: hung=%v spun=%v", c.Name, c.Hung, c.Spun))
		}
	}
	res.Outcome = fmt.Sprintf("A=%s B=%s R=%s R2=%s", results[0].Class, results[1].Class, results[2], results[3])
	for i := 2; i < 4; i++ {
		if results[i].Class == "" {
			continue
		}
		if c, d := oracle(results[i]); c != "" {
			add(c, fmt.Sprintf("concurrent reader: %s", d))
		}
	}
	// (c) every single-entry loss of the final state, then a read on a fresh connection
	for _, ek := range st.Keys() {
		cl := st.Clone()
		cl.Evict(ek)
		h := chunked.NewHandler(fakemc.NewConn(cl, "F"))
		for _, kind := range []string{"get", "gat"} {
			r := CallHandler(h, wire.Op{Kind: kind, Key: key, TTL: 50})
			if c, d := oracle(r); c != "" {
				add(c+"-after-loss", fmt.Sprintf("after the interleaved writes and the loss of entry %q: %s", ek, d))
			}
		}
	}
	{
		h := chunked.NewHandler(fakemc.NewConn(st.Clone(), "F"))
		r := CallHandler(h, wire.Op{Kind: "get", Key: key})
		if c, d := oracle(r); c != "" {
			add(c+"-final", fmt.Sprintf("read after both writes completed: %s", d))
		}
		res.Outcome += " final=" + r.Class + fmt.Sprint(len(r.Hits))
	}
	return res
}

// runChunkBystander: key k holds A; one connection overwrites it with B while a second reads it
// (points before every backend request and before every piece of the reply that arrives - a reader
// that has found a stale chunk still drains the rest of its batch); a third connection reads
// another key, k2, in one go at any of those moments. The first reader sees A, B or a miss; the
// bystander sees exactly k2's value - looked at only after everybody has finished: what a reader
// gave up on must not be written into what another reader was handed.
func runChunkBystander(sc ChunkRace, prefix []int) *chunkRaceResult {
	res := &chunkRaceResult{}
	vsync.TakeDoublePuts()
	defer func() {
		if f := doublePut("C05"); f != nil {
			res.Findings = append(res.Findings, *f)
		}
	}()
	key, key2 := "k", "q"
	p := payloadFor(len(key))
	size := func(n int) int { return (n-1)*p + p/3 + 1 }
	st := fakemc.NewStore("L1")
	s := sched.New(prefix)
	res.S = s
	opA := wire.Op{Kind: "set", Key: key, VGen: true, VLen: size(sc.NA), VSeed: 71, Flags: 0xA}
	opB := wire.Op{Kind: "set", Key: key, VGen: true, VLen: size(sc.NA), VSeed: 72, Flags: 0xB}
	op2 := wire.Op{Kind: "set", Key: key2, VGen: true, VLen: size(sc.NB), VSeed: 75, Flags: 0xC}
	{
		h := chunked.NewHandler(fakemc.NewConn(st, "prep"))
		CallHandler(h, opA)
		CallHandler(h, op2)
	}
	cX, cB, cY := fakemc.NewConn(st, "X"), fakemc.NewConn(st, "B"), fakemc.NewConn(st, "Y")
	cX.Before = func(c *fakemc.Conn, f *fakemc.Frame) { s.Point("X:"+frameTag(f), nil) }
	cX.BeforeRead = func(c *fakemc.Conn) { s.Point("X:reply-piece", nil) }
	cX.ReadCap = 1300
	cB.Before = func(c *fakemc.Conn, f *fakemc.Frame) { s.Point("B:"+frameTag(f), nil) }
	hX, hB, hY := chunked.NewHandler(cX), chunked.NewHandler(cB), chunked.NewHandler(cY)
	var rX, rB, rY HRes
	s.Go(0, func() { rX = CallHandlerDeferred(hX, wire.Op{Kind: sc.Reader, Key: key, TTL: 100}) })
	s.Go(1, func() { rB = CallHandler(hB, opB) })
	s.Go(2, func() { rY = CallHandlerDeferred(hY, wire.Op{Kind: sc.Reader, Key: key2, TTL: 100}) })
	s.Run()
	rX.Materialize()
	rY.Materialize()
	add := func(clause, what string) {
		res.Findings = append(res.Findings, Finding{Sig: fmt.Sprintf("C05 %s writers=overwrite+bystander reader=%s", clause, sc.Reader), What: what, Clause: clause})
	}
	if s.Deadlock {
		add("deadlock", s.DeadlockInfo)
		return res
	}
	for _, c := range []*fakemc.Conn{cX, cB, cY} {
		if c.Hung || c.Spun {
			add("backend-stream", fmt.Sprintf("connection %s: hung=%v spun=%v", c.Name, c.Hung, c.Spun))
		}
	}
	res.Outcome = fmt.Sprintf("X=%s B=%s Y=%s", rX, rB.Class, rY.Class)
	if c, d := lossOracle([][]byte{opA.Value(), opB.Value()}, []uint32{0xA, 0xB}, nil, false)(rX); c != "" {
		add(c, "reader of the key being overwritten: "+d)
	}
	if c, d := lossOracle([][]byte{op2.Value()}, []uint32{0xC}, nil, false)(rY); c != "" {
		add(c+"-bystander", "reader of ANOTHER key, which nobody writes: "+d)
	} else if rY.Class != "values" || len(rY.Hits) != 1 {
		add("bystander-miss", fmt.Sprintf("the other key, which nobody writes, was not served: %s", rY))
	}
	return res
}

func exploreChunkRaces(c *rt.Ctx, item *int) {
	shapes := [][2]int{{2, 2}, {1, 2}, {2, 1}}
	bound := -1
	if c.Thorough() {
		shapes = append(shapes, [2]int{3, 3}, [2]int{3, 2}, [2]int{1, 3})
	}
	type prog struct {
		mode string
		sh   [2]int
		rd   string
		kb   string
	}
	var progs []prog
	// the second writer replaces / adds instead of setting (other request builders, and it may be
	// refused half-way through the first writer's set)
	for _, kb := range []string{"replace", "add"} {
		for _, rd := range []string{"get", "gat"} {
			progs = append(progs, prog{"", [2]int{2, 2}, rd, kb})
			if c.Thorough() {
				progs = append(progs, prog{"", [2]int{1, 2}, rd, kb}, prog{"", [2]int{2, 1}, rd, kb})
			}
		}
	}
	for _, sh := range shapes {
		for _, rd := range []string{"get", "gat", "append"} {
			progs = append(progs, prog{"", sh, rd, ""})
		}
	}
	for _, sh := range shapes {
		for _, rd := range []string{"get", "gat"} {
			progs = append(progs, prog{"sameconn", sh, rd, ""})
		}
	}
	for _, mode := range []string{"append", "prepend"} {
		for _, n := range []int{1, 2, 3} {
			for _, rd := range []string{"get", "gat"} {
				progs = append(progs, prog{mode, [2]int{n, n}, rd, ""})
			}
		}
	}
	// a reader of another key next to an overwrite and a reader of the overwritten key
	for _, sh := range [][2]int{{8, 2}, {8, 8}, {3, 3}} {
		for _, rd := range []string{"get", "gat"} {
			progs = append(progs, prog{"bystander", sh, rd, ""})
		}
	}
	for _, pg := range progs {
		{
			sh, rd := pg.sh, pg.rd
			*item++
			if !c.Mine(*item) {
				continue
			}
			sc := ChunkRace{Mode: pg.mode, NA: sh[0], NB: sh[1], Reader: rd, KindB: pg.kb}
			b := bound
			if sh[0]+sh[1] >= 5 {
				b = 3
			}
			if pg.mode == "bystander" {
				b = 2
			}
			if rd == "append" { // a read followed by a full re-write: bound the preemptions
				b = 2
				if c.Thorough() {
					b = 3
				}
			}
			ex := &sched.Explorer{Bound: b, MaxExecs: 400000, Expired: c.Expired}
			outs := map[string]bool{}
			violated := false
			ex.Explore(func(prefix []int) *sched.Sched {
				var r *chunkRaceResult
				sched.Bubble(c.T, func() { r = runChunkRace(sc, prefix) })
				c.Eval(1)
				c.Trace(1)
				c.Trans(int64(len(r.S.Trace)))
				outs[r.Outcome] = true
				for _, f := range r.Findings {
					violated = true
					scc := sc
					scc.Choices = r.S.Choices()
					c.Violation(f.Sig, f.What+"\nschedule: "+r.S.Describe(), map[string]interface{}{"race": scc})
				}
				return r.S
			}, func(s *sched.Sched) bool { return !violated })
			if ex.Truncated {
				c.Cap(fmt.Sprintf("schedule cap reached for chunk race %v reader %s (preemption bound %d)", sh, rd, b))
			}
			key := fmt.Sprintf("race|%s%s|%v|%s", pg.mode, pg.kb, sh, rd)
			c.Distinct(key)
			c.Nontrivial(key)
			c.State(int64(len(outs)))
			var o []string
			for k := range outs {
				if len(o) < 6 {
					o = append(o, k)
				}
			}
			c.Sample(map[string]interface{}{"writers": pg.mode, "chunks_A_B": sh, "reader": rd, "schedules": ex.Execs, "outcomes": o})
		}
	}
}
