package h

import (
	"fmt"
	"math"
	"net/http"
	"net/http/httptest"
	"strconv"
	"strings"
	"sync"

	"github.com/netflix/rend/metrics"
	"github.com/netflix/rend/verifshim/vyield"

	"verif/rt"
	"verif/sched"
)

var (
	c18once sync.Once
	c18hist uint32
	c18ctr  uint32
)

// metricsRace: observers and incrementers against a reader, every atomic operation and every
// lock operation of metrics/counters.go and metrics/histograms.go being a scheduling point.
type metricsRace struct {
	Obs     [][]uint64 `json:"observers"`    // per observer thread: values observed
	Incs    [][]uint64 `json:"incrementers"` // per incrementer thread: amounts (1 = IncCounter)
	Reads   int        `json:"reads"`        // reader: number of extract/read rounds
	Choices []int      `json:"choices"`
}

// scrapeRace: observers against TWO pollers of the real /metrics HTTP handler. Scheduling points:
// the scrape lock and the histogram's lock (both directions), every atomic step of the observers,
// and a yield injected between taking a period out of the histogram and sorting / reading it.
type scrapeRace struct {
	Obs     [][]uint64 `json:"observers"`
	Scrapes []int      `json:"scrapes_per_poller"`
	Choices []int      `json:"choices"`
}

var (
	c18scrapeOnce sync.Once
	c18scrapeHist uint32
)

type scrapeReport struct {
	seen  bool
	count uint64
	kept  uint64
	pct   map[string]uint64
}

func parseScrape(body string) scrapeReport {
	r := scrapeReport{pct: map[string]uint64{}}
	for _, line := range strings.Split(body, "\n") {
		if !strings.HasPrefix(line, "hist_verif_scrape|") {
			continue
		}
		sp := strings.LastIndexByte(line, ' ')
		i := strings.Index(line, "statistic*")
		if sp < 0 || i < 0 {
			continue
		}
		stat := line[i+len("statistic*") : sp]
		if j := strings.IndexByte(stat, '|'); j >= 0 {
			stat = stat[:j]
		}
		if stat == "average" {
			continue
		}
		v, err := strconv.ParseUint(line[sp+1:], 10, 64)
		if err != nil {
			continue
		}
		r.seen = true
		switch stat {
		case "count":
			r.count = v
		case "kept":
			r.kept = v
		default:
			r.pct[stat] = v
		}
	}
	return r
}

func scrapeOnce() scrapeReport {
	rec := httptest.NewRecorder()
	http.DefaultServeMux.ServeHTTP(rec, httptest.NewRequest("GET", "/metrics", nil))
	return parseScrape(rec.Body.String())
}

func runScrapeRace(sc scrapeRace, prefix []int) *metricsRaceResult {
	c18scrapeOnce.Do(func() { c18scrapeHist = metrics.AddHistogram("verif_scrape", false, nil) })
	res := &metricsRaceResult{}
	scrapeOnce() // every histogram of the process starts an empty period
	s := sched.New(prefix)
	res.S = s
	hk := InstallShimHooks(s)
	l1, l2 := metrics.VerifScrapeLocks(c18scrapeHist)
	hk.AtomicPoints, hk.LockPoints = true, true
	hk.LockFilter = func(m interface{}) bool { return m == l1 || m == l2 }
	hk.AtomicThreads = map[int]bool{}
	defer hk.Uninstall()
	pollers := map[int]bool{}
	vyield.Hook = func(label string) {
		if t := s.Current(); t >= 0 && pollers[t] {
			s.Point("yield-"+label, nil)
		}
	}
	defer func() { vyield.Hook = nil }()
	tid := 0
	nobs := 0
	seenVal := map[uint64]bool{}
	for _, vals := range sc.Obs {
		vals := vals
		for _, v := range vals {
			if seenVal[v] {
				panic("scrapeRace: observed values must be distinct")
			}
			seenVal[v] = true
			nobs++
		}
		hk.AtomicThreads[tid] = true
		s.Go(tid, func() {
			for _, v := range vals {
				metrics.ObserveHist(c18scrapeHist, v)
			}
		})
		tid++
	}
	var reports []scrapeReport
	for _, n := range sc.Scrapes {
		n := n
		pollers[tid] = true
		s.Go(tid, func() {
			for i := 0; i < n; i++ {
				r := scrapeOnce()
				reports = append(reports, r)
			}
		})
		tid++
	}
	s.Run()
	hk.Uninstall()
	vyield.Hook = nil
	add := func(clause, what string) {
		res.Findings = append(res.Findings, Finding{Sig: "C18 scrape-" + clause, What: what, Clause: clause})
	}
	if s.Deadlock {
		add("deadlock", s.DeadlockInfo)
		return res
	}
	reports = append(reports, scrapeOnce()) // closes the last period
	var total uint64
	owner := map[uint64]int{}
	var counts []uint64
	for pi, r := range reports {
		counts = append(counts, r.count)
		if !r.seen {
			add("report-missing", fmt.Sprintf("scrape %d does not report the histogram at all", pi))
			continue
		}
		total += r.count
		if r.count == 0 {
			continue
		}
		if r.kept != r.count {
			add("kept", fmt.Sprintf("scrape %d: count %d kept %d (unsampled histogram)", pi, r.count, r.kept))
		}
		mn, mx := r.pct["percentile0"], r.pct["percentile100"]
		for name, v := range r.pct {
			if v < mn || v > mx {
				add("percentile-range", fmt.Sprintf("scrape %d: %s = %d outside the reported [min %d, max %d]", pi, name, v, mn, mx))
				break
			}
			if !seenVal[v] {
				add("percentile-foreign", fmt.Sprintf("scrape %d: %s = %d was never observed", pi, name, v))
				break
			}
			if o, ok := owner[v]; ok && o != pi {
				add("percentile-foreign", fmt.Sprintf("%s = %d is reported by scrape %d and by scrape %d although it was observed once: one of the two periods reports an observation that is not its own", name, v, o, pi))
				break
			}
			owner[v] = pi
		}
		if len(r.pct) != 23 {
			add("report-incomplete", fmt.Sprintf("scrape %d reports %d percentile lines for a non-empty period", pi, len(r.pct)))
		}
	}
	if total != uint64(nobs) {
		add("count", fmt.Sprintf("the scrapes report %d observations in total, %d were made (per scrape: %v)", total, nobs, counts))
	}
	res.Outcome = fmt.Sprintf("counts=%v", counts)
	return res
}

type metricsRaceResult struct {
	S        *sched.Sched
	Findings []Finding
	Outcome  string
}

func runMetricsRace(sc metricsRace, prefix []int) *metricsRaceResult {
	c18once.Do(func() {
		c18hist = metrics.AddHistogram("verif_race", false, nil)
		c18ctr = metrics.AddCounter("verif_race_ctr", nil)
	})
	res := &metricsRaceResult{}
	metrics.VerifExtractHist(c18hist) // start from an empty period
	base := metrics.VerifCounter(c18ctr)
	s := sched.New(prefix)
	res.S = s
	hk := InstallShimHooks(s)
	hk.AtomicPoints, hk.LockPoints = true, true
	defer hk.Uninstall()
	tid := 0
	all := map[uint64]bool{}
	nobs := 0
	var sum uint64
	for _, vals := range sc.Obs {
		vals := vals
		for _, v := range vals {
			all[v] = true
			nobs++
		}
		s.Go(tid, func() {
			for _, v := range vals {
				metrics.ObserveHist(c18hist, v)
			}
		})
		tid++
	}
	for _, amts := range sc.Incs {
		amts := amts
		for _, a := range amts {
			sum += a
		}
		s.Go(tid, func() {
			for _, a := range amts {
				if a == 1 {
					metrics.IncCounter(c18ctr)
				} else {
					metrics.IncCounterBy(c18ctr, a)
				}
			}
		})
		tid++
	}
	var periods []metrics.VerifHistSnapshot
	var reads []uint64
	s.Go(tid, func() {
		for i := 0; i < sc.Reads; i++ {
			periods = append(periods, metrics.VerifExtractHist(c18hist))
			reads = append(reads, metrics.VerifCounter(c18ctr)-base)
		}
	})
	s.Run()
	hk.Uninstall()
	add := func(clause, what string) {
		res.Findings = append(res.Findings, Finding{Sig: "C18 " + clause, What: what, Clause: clause})
	}
	if s.Deadlock {
		add("deadlock", s.DeadlockInfo)
		return res
	}
	// close the last period and take the final counter value
	periods = append(periods, metrics.VerifExtractHist(c18hist))
	final := metrics.VerifCounter(c18ctr) - base
	if final != sum {
		add("counter-lost-update", fmt.Sprintf("counter grew by %d after increments summing to %d", final, sum))
	}
	prev := uint64(0)
	for _, r := range append(reads, final) {
		if r < prev || r > sum {
			add("counter-read-not-monotone", fmt.Sprintf("counter reads %v (final %d, total %d)", reads, final, sum))
			break
		}
		prev = r
	}
	var total uint64
	for pi, p := range periods {
		total += p.Count
		if p.Count == 0 {
			continue
		}
		if p.Kept != p.Count {
			add("hist-kept", fmt.Sprintf("period %d: count %d kept %d (unsampled)", pi, p.Count, p.Kept))
		}
		mn, mx := p.Percentiles[0], p.Percentiles[20]
		for k, v := range p.Percentiles {
			if v < mn || v > mx {
				add("hist-percentile-range", fmt.Sprintf("period %d: percentile slot %d = %d outside [%d, %d]", pi, k, v, mn, mx))
				break
			}
			if !all[v] {
				add("hist-percentile-foreign", fmt.Sprintf("period %d: percentile slot %d = %d was never observed", pi, k, v))
				break
			}
		}
		if mn == math.MaxUint64 {
			add("hist-minmax", fmt.Sprintf("period %d with %d observations reports min MaxUint64", pi, p.Count))
		}
	}
	if total != uint64(nobs) {
		add("hist-count", fmt.Sprintf("periods report %d observations in total, %d were made", total, nobs))
	}
	res.Outcome = fmt.Sprintf("reads=%v final=%d periods=%v", reads, final, func() []uint64 {
		var c []uint64
		for _, p := range periods {
			c = append(c, p.Count)
		}
		return c
	}())
	return res
}

func exploreScrapeRaces(c *rt.Ctx) {
	bound := 2
	if c.Thorough() {
		bound = 3
	}
	progs := []scrapeRace{
		{Obs: [][]uint64{{10, 500, 20}}, Scrapes: []int{1, 1}},
	}
	if c.Thorough() {
		progs = append(progs, scrapeRace{Obs: [][]uint64{{10, 20, 30, 1000}}, Scrapes: []int{1, 2}}, scrapeRace{Obs: [][]uint64{{7, 900}, {15, 800}}, Scrapes: []int{2, 2}})
	}
	for pi, sc := range progs {
		if !c.Mine(2000 + pi) {
			continue
		}
		ex := &sched.Explorer{Bound: bound, MaxExecs: 100000, Expired: c.Expired}
		outs := map[string]bool{}
		violated := false
		ex.Explore(func(prefix []int) *sched.Sched {
			var r *metricsRaceResult
			sched.Bubble(c.T, func() { r = runScrapeRace(sc, prefix) })
			c.Eval(1)
			c.Trace(1)
			c.Trans(int64(len(r.S.Trace)))
			outs[r.Outcome] = true
			for _, f := range r.Findings {
				violated = true
				scc := sc
				scc.Choices = r.S.Choices()
				c.Violation(f.Sig, f.What+"\nschedule: "+r.S.Describe(), map[string]interface{}{"scrape_race": scc})
			}
			return r.S
		}, func(s *sched.Sched) bool { return !violated })
		if ex.Truncated {
			c.Cap(fmt.Sprintf("schedule cap reached for scrape race program %d (preemption bound %d)", pi, bound))
		}
		c.State(int64(len(outs)))
		key := fmt.Sprintf("scrape|%d", pi)
		c.Distinct(key)
		if len(outs) > 1 {
			c.Nontrivial(key)
		}
		c.Sample(map[string]interface{}{"program": sc, "schedules": ex.Execs, "preemption_bound": bound, "distinct_outcomes": len(outs)})
		c.Add("n_scrape_race_schedules", int64(ex.Execs))
	}
}

func exploreMetricsRaces(c *rt.Ctx) {
	bound := 2
	if c.Thorough() {
		bound = 3
	}
	progs := []metricsRace{
		{Incs: [][]uint64{{1, 5}, {1, 7}, {3}}, Reads: 2},
		{Incs: [][]uint64{{1}, {1}, {1}}, Reads: 1},
		{Obs: [][]uint64{{5, 100}, {7}}, Reads: 1},
		{Obs: [][]uint64{{50}, {3, 1 << 40}}, Reads: 2},
		{Obs: [][]uint64{{9}, {2}}, Incs: [][]uint64{{4}}, Reads: 1},
	}
	for pi, sc := range progs {
		if !c.Mine(1000 + pi) {
			continue
		}
		ex := &sched.Explorer{Bound: bound, MaxExecs: 300000, Expired: c.Expired}
		outs := map[string]bool{}
		violated := false
		ex.Explore(func(prefix []int) *sched.Sched {
			var r *metricsRaceResult
			sched.Bubble(c.T, func() { r = runMetricsRace(sc, prefix) })
			c.Eval(1)
			c.Trace(1)
			c.Trans(int64(len(r.S.Trace)))
			outs[r.Outcome] = true
			for _, f := range r.Findings {
				violated = true
				scc := sc
				scc.Choices = r.S.Choices()
				c.Violation(f.Sig, f.What+"\nschedule: "+r.S.Describe(), map[string]interface{}{"metrics_race": scc})
			}
			return r.S
		}, func(s *sched.Sched) bool { return !violated })
		if ex.Truncated {
			c.Cap(fmt.Sprintf("schedule cap reached for metrics race program %d (preemption bound %d)", pi, bound))
		}
		c.State(int64(len(outs)))
		key := fmt.Sprintf("mrace|%d", pi)
		c.Distinct(key)
		c.Nontrivial(key)
		var o []string
		for k := range outs {
			if len(o) < 5 {
				o = append(o, k)
			}
		}
		c.Sample(map[string]interface{}{"program": sc, "schedules": ex.Execs, "preemption_bound": bound, "distinct_outcomes": len(outs), "some_outcomes": o})
		c.Add("n_metric_race_schedules", int64(ex.Execs))
	}
}
