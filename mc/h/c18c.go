package h

import (
	"fmt"
	"math"
	"sync"

	"github.com/netflix/rend/metrics"

	"verif/rt"
	"verif/sched"
)

var (
	c18once sync.Once
	c18hist uint32
	c18ctr  uint32
)

// metricsRace: observers and incrementers against a reader, every atomic operation and every
// lock operation of metrics/counters.go and metrics/histograms.go being a scheduling point.
type metricsRace struct {
	Obs     [][]uint64 `json:"observers"`    // per observer thread: values observed
	Incs    [][]uint64 `json:"incrementers"` // per incrementer thread: amounts (1 = IncCounter)
	Reads   int        `json:"reads"`        // reader: number of extract/read rounds
	Choices []int      `json:"choices"`
}

type metricsRaceResult struct {
	S        *sched.Sched
	Findings []Finding
	Outcome  string
}

func runMetricsRace(sc metricsRace, prefix []int) *metricsRaceResult {
	c18once.Do(func() {
		c18hist = metrics.AddHistogram("verif_race", false, nil)
		c18ctr = metrics.AddCounter("verif_race_ctr", nil)
	})
	res := &metricsRaceResult{}
	metrics.VerifExtractHist(c18hist) // start from an empty period
	base := metrics.VerifCounter(c18ctr)
	s := sched.New(prefix)
	res.S = s
	hk := InstallShimHooks(s)
	hk.AtomicPoints, hk.LockPoints = true, true
	defer hk.Uninstall()
	tid := 0
	all := map[uint64]bool{}
	nobs := 0
	var sum uint64
	for _, vals := range sc.Obs {
		vals := vals
		for _, v := range vals {
			all[v] = true
			nobs++
		}
		s.Go(tid, func() {
			for _, v := range vals {
				metrics.ObserveHist(c18hist, v)
			}
		})
		tid++
	}
	for _, amts := range sc.Incs {
		amts := amts
		for _, a := range amts {
			sum += a
		}
		s.Go(tid, func() {
			for _, a := range amts {
				if a == 1 {
					metrics.IncCounter(c18ctr)
				} else {
					metrics.IncCounterBy(c18ctr, a)
				}
			}
		})
		tid++
	}
	var periods []metrics.VerifHistSnapshot
	var reads []uint64
	s.Go(tid, func() {
		for i := 0; i < sc.Reads; i++ {
			periods = append(periods, metrics.VerifExtractHist(c18hist))
			reads = append(reads, metrics.VerifCounter(c18ctr)-base)
		}
	})
	s.Run()
	hk.Uninstall()
	add := func(clause, what string) {
		res.Findings = append(res.Findings, Finding{Sig: "C18 " + clause, What: what, Clause: clause})
	}
	if s.Deadlock {
		add("deadlock", s.DeadlockInfo)
		return res
	}
	// close the last period and take the final counter value
	periods = append(periods, metrics.VerifExtractHist(c18hist))
	final := metrics.VerifCounter(c18ctr) - base
	if final != sum {
		add("counter-lost-update", fmt.Sprintf("counter grew by %d after increments summing to %d", final, sum))
	}
	prev := uint64(0)
	for _, r := range append(reads, final) {
		if r < prev || r > sum {
			add("counter-read-not-monotone", fmt.Sprintf("counter reads %v (final %d, total %d)", reads, final, sum))
			break
		}
		prev = r
	}
	var total uint64
	for pi, p := range periods {
		total += p.Count
		if p.Count == 0 {
			continue
		}
		if p.Kept != p.Count {
			add("hist-kept", fmt.Sprintf("period %d: count %d kept %d (unsampled)", pi, p.Count, p.Kept))
		}
		mn, mx := p.Percentiles[0], p.Percentiles[20]
		for k, v := range p.Percentiles {
			if v < mn || v > mx {
				add("hist-percentile-range", fmt.Sprintf("period %d: percentile slot %d = %d outside [%d, %d]", pi, k, v, mn, mx))
				break
			}
			if !all[v] {
				add("hist-percentile-foreign", fmt.Sprintf("period %d: percentile slot %d = %d was never observed", pi, k, v))
				break
			}
		}
		if mn == math.MaxUint64 {
			add("hist-minmax", fmt.Sprintf("period %d with %d observations reports min MaxUint64", pi, p.Count))
		}
	}
	if total != uint64(nobs) {
		add("hist-count", fmt.Sprintf("periods report %d observations in total, %d were made", total, nobs))
	}
	res.Outcome = fmt.Sprintf("reads=%v final=%d periods=%v", reads, final, func() []uint64 {
		var c []uint64
		for _, p := range periods {
			c = append(c, p.Count)
		}
		return c
	}())
	return res
}

func exploreMetricsRaces(c *rt.Ctx) {
	bound := 2
	if c.Thorough() {
		bound = 3
	}
	progs := []metricsRace{
		{Incs: [][]uint64{{1, 5}, {1, 7}, {3}}, Reads: 2},
		{Incs: [][]uint64{{1}, {1}, {1}}, Reads: 1},
		{Obs: [][]uint64{{5, 100}, {7}}, Reads: 1},
		{Obs: [][]uint64{{50}, {3, 1 << 40}}, Reads: 2},
		{Obs: [][]uint64{{9}, {2}}, Incs: [][]uint64{{4}}, Reads: 1},
	}
	for pi, sc := range progs {
		if !c.Mine(1000 + pi) {
			continue
		}
		ex := &sched.Explorer{Bound: bound, MaxExecs: 300000, Expired: c.Expired}
		outs := map[string]bool{}
		violated := false
		ex.Explore(func(prefix []int) *sched.Sched {
			var r *metricsRaceResult
			sched.Bubble(c.T, func() { r = runMetricsRace(sc, prefix) })
			c.Eval(1)
			c.Trace(1)
			c.Trans(int64(len(r.S.Trace)))
			outs[r.Outcome] = true
			for _, f := range r.Findings {
				violated = true
				scc := sc
				scc.Choices = r.S.Choices()
				c.Violation(f.Sig, f.What+"\nschedule: "+r.S.Describe(), map[string]interface{}{"metrics_race": scc})
			}
			return r.S
		}, func(s *sched.Sched) bool { return !violated })
		if ex.Truncated {
			c.Cap(fmt.Sprintf("schedule cap reached for metrics race program %d (preemption bound %d)", pi, bound))
		}
		c.State(int64(len(outs)))
		key := fmt.Sprintf("mrace|%d", pi)
		c.Distinct(key)
		c.Nontrivial(key)
		var o []string
		for k := range outs {
			if len(o) < 5 {
				o = append(o, k)
			}
		}
		c.Sample(map[string]interface{}{"program": sc, "schedules": ex.Execs, "preemption_bound": bound, "distinct_outcomes": len(outs), "some_outcomes": o})
		c.Add("n_metric_race_schedules", int64(ex.Execs))
	}
}
