// Package rt is the small runtime shared by all harnesses: sharding, counters that end up in the
// evidence file, violation collection with signatures, replay files and the internal deadline.
package rt

import (
	"encoding/json"
	"fmt"
	"hash/fnv"
	"os"
	"runtime"
	"sort"
	"strconv"
	"strings"
	"sync"
	"testing"
	"time"
)

// Violation is one distinct way a property was seen to fail.
type Violation struct {
	Sig      string      `json:"sig"`
	What     string      `json:"what"`
	Count    int         `json:"count"`
	Scenario interface{} `json:"scenario"`
}

// Result is what one worker writes.
type Result struct {
	ID          string                 `json:"id"`
	Shard       string                 `json:"shard"`
	Evaluations int64                  `json:"evaluations"`
	States      int64                  `json:"states"`
	Transitions int64                  `json:"transitions"`
	Traces      int64                  `json:"traces"`
	Distinct    []string               `json:"distinct"`
	Nontrivial  []string               `json:"nontrivial"`
	StateKeys   []string               `json:"statekeys"`
	Samples     []interface{}          `json:"samples"`
	Violations  []*Violation           `json:"violations"`
	Exhaustive  bool                   `json:"exhaustive"`
	Caps        []string               `json:"caps"`
	Extra       map[string]interface{} `json:"extra"`
	WallS       float64                `json:"wall_s"`
}

// Ctx is handed to a harness.
type Ctx struct {
	T       *testing.T
	ID      string
	Tier    string
	Shard   int
	NShards int
	Seed    int64

	mu         sync.Mutex
	evals      int64
	states     int64
	trans      int64
	traces     int64
	distinct   map[uint64]struct{}
	nontrivial map[uint64]struct{}
	statekeys  map[uint64]struct{}
	samples    []interface{}
	viol       map[string]*Violation
	caps       []string
	extra      map[string]interface{}
	exhaustive bool
	start      time.Time
	deadline   time.Time
	memCalls   int
	memOver    bool
}

// Thorough reports whether the thorough tier was requested.
func (c *Ctx) Thorough() bool { return c.Tier == "thorough" }

// Mine reports whether work item i belongs to this shard.
func (c *Ctx) Mine(i int) bool { return i%c.NShards == c.Shard }

// Expired reports whether the internal deadline has passed; the first time it is seen the run is
// marked non-exhaustive.
func (c *Ctx) Expired() bool {
	if c.overBudget() {
		return true
	}
	if c.deadline.IsZero() || time.Now().Before(c.deadline) {
		return false
	}
	c.Cap("internal deadline reached; remaining work items skipped")
	return true
}

// overBudget: executions that involve the batching pool leave its goroutines parked for good
// (rend has no way to stop them), so a worker that runs very many of them grows without bound. A
// worker whose resident size passes the budget (VERIF_MEM_MB, default 3000) stops taking work; the
// run is then reported as capped, never as a violation.
func (c *Ctx) overBudget() bool {
	c.mu.Lock()
	defer c.mu.Unlock()
	if c.memOver {
		return true
	}
	c.memCalls++
	if c.memCalls%256 != 0 {
		return false
	}
	b, err := os.ReadFile("/proc/self/statm")
	if err != nil {
		return false
	}
	var size, rss int64
	fmt.Sscan(string(b), &size, &rss)
	limit := int64(3000)
	if v, err := strconv.Atoi(os.Getenv("VERIF_MEM_MB")); err == nil && v > 0 {
		limit = int64(v)
	}
	if rss*int64(os.Getpagesize())/(1<<20) > limit {
		c.memOver = true
		c.exhaustive = false
		msg := fmt.Sprintf("a worker reached its memory budget of %d MB (parked goroutines of the batching pool accumulate); its remaining work items were skipped", limit)
		found := false
		for _, x := range c.caps {
			found = found || x == msg
		}
		if !found {
			c.caps = append(c.caps, msg)
		}
	}
	return c.memOver
}

// Cap records that some bound cut the exploration short of the stated space.
func (c *Ctx) Cap(s string) {
	c.mu.Lock()
	defer c.mu.Unlock()
	c.exhaustive = false
	for _, x := range c.caps {
		if x == s {
			return
		}
	}
	c.caps = append(c.caps, s)
}

func h64(s string) uint64 {
	h := fnv.New64a()
	h.Write([]byte(s))
	return h.Sum64()
}

func (c *Ctx) Eval(n int64)  { c.mu.Lock(); c.evals += n; c.mu.Unlock() }
func (c *Ctx) State(n int64) { c.mu.Lock(); c.states += n; c.mu.Unlock() }
func (c *Ctx) Trans(n int64) { c.mu.Lock(); c.trans += n; c.mu.Unlock() }
func (c *Ctx) Trace(n int64) { c.mu.Lock(); c.traces += n; c.mu.Unlock() }

// Distinct records a canonical rendering of a case / outcome.
func (c *Ctx) Distinct(s string) {
	c.mu.Lock()
	c.distinct[h64(s)] = struct{}{}
	c.mu.Unlock()
}

// StateKey records a canonical state; the driver counts the union over all workers as states
// (for explorations whose last level is split between workers).
func (c *Ctx) StateKey(s string) {
	c.mu.Lock()
	c.statekeys[h64(s)] = struct{}{}
	c.mu.Unlock()
}

// Nontrivial records a canonical rendering of a case that is non-trivial by the harness's rule.
func (c *Ctx) Nontrivial(s string) {
	c.mu.Lock()
	c.nontrivial[h64(s)] = struct{}{}
	c.mu.Unlock()
}

// Sample keeps up to 6 example cases.
func (c *Ctx) Sample(v interface{}) {
	c.mu.Lock()
	if len(c.samples) < 6 {
		c.samples = append(c.samples, v)
	}
	c.mu.Unlock()
}

// Set stores an extra evidence field.
func (c *Ctx) Set(k string, v interface{}) { c.mu.Lock(); c.extra[k] = v; c.mu.Unlock() }

// Add adds to a numeric extra evidence field.
func (c *Ctx) Add(k string, n int64) {
	c.mu.Lock()
	cur, _ := c.extra[k].(int64)
	c.extra[k] = cur + n
	c.mu.Unlock()
}

// Violation records a property violation under a signature; the first scenario per signature is
// kept (explorations enumerate simplest-first, so it is a shortest one).
func (c *Ctx) Violation(sig, what string, scenario interface{}) {
	c.mu.Lock()
	defer c.mu.Unlock()
	if v, ok := c.viol[sig]; ok {
		v.Count++
		return
	}
	c.viol[sig] = &Violation{Sig: sig, What: what, Count: 1, Scenario: scenario}
}

// Crumb writes the scenario about to be executed to the breadcrumb file, so that a worker killed
// by a fatal error (which Go cannot recover) is attributed to that execution by the driver.
func (c *Ctx) Crumb(sigctx string, scenario interface{}) {
	if crumbFile == nil {
		p := os.Getenv("VERIF_CRUMB")
		if p == "" {
			return
		}
		f, err := os.OpenFile(p, os.O_CREATE|os.O_RDWR|os.O_TRUNC, 0o644)
		if err != nil {
			return
		}
		crumbFile = f
	}
	b, err := json.Marshal(map[string]interface{}{"sigctx": sigctx, "scenario": scenario})
	if err != nil {
		return
	}
	// one pwrite, no truncate: the previous crumb's tail is blanked with spaces
	n := len(b)
	for len(b) < crumbLen {
		b = append(b, ' ')
	}
	crumbLen = n
	crumbFile.WriteAt(b, 0)
}

var (
	crumbFile *os.File
	crumbLen  int
)

// NViolations returns the number of distinct signatures so far.
func (c *Ctx) NViolations() int { c.mu.Lock(); defer c.mu.Unlock(); return len(c.viol) }

// Harness is one property's check.
type Harness struct {
	Run    func(c *Ctx)
	Replay func(c *Ctx, scenario json.RawMessage) string
}

var registry = map[string]Harness{}

// Lookup returns the harness registered under id (zero value if none).
func Lookup(id string) Harness { return registry[id] }

// Register adds a harness under a property id.
func Register(id string, h Harness) { registry[id] = h }

// Main dispatches according to the environment (called from the single Test function).
func Main(t *testing.T) {
	id := os.Getenv("VERIF_ID")
	if id == "" {
		t.Skip("VERIF_ID not set")
	}
	h, ok := registry[id]
	if !ok {
		t.Fatalf("no harness for %s", id)
	}
	c := &Ctx{T: t, ID: id, Tier: os.Getenv("VERIF_TIER"), NShards: 1, distinct: map[uint64]struct{}{}, nontrivial: map[uint64]struct{}{}, statekeys: map[uint64]struct{}{},
		viol: map[string]*Violation{}, extra: map[string]interface{}{}, exhaustive: true, start: time.Now()}
	if c.Tier == "" {
		c.Tier = "quick"
	}
	if s := os.Getenv("VERIF_SHARD"); s != "" {
		p := strings.Split(s, "/")
		c.Shard, _ = strconv.Atoi(p[0])
		c.NShards, _ = strconv.Atoi(p[1])
	}
	if s := os.Getenv("VERIF_SEED"); s != "" {
		c.Seed, _ = strconv.ParseInt(s, 10, 64)
	}
	if s := os.Getenv("VERIF_DEADLINE_S"); s != "" {
		d, _ := strconv.Atoi(s)
		if d > 0 {
			c.deadline = c.start.Add(time.Duration(d) * time.Second)
		}
	}
	if rp := os.Getenv("VERIF_REPLAY"); rp != "" {
		raw, err := os.ReadFile(rp)
		if err != nil {
			t.Fatal(err)
		}
		var v struct {
			Scenario json.RawMessage `json:"scenario"`
		}
		if err := json.Unmarshal(raw, &v); err != nil {
			t.Fatal(err)
		}
		if h.Replay == nil {
			t.Fatalf("%s has no replay", id)
		}
		out := h.Replay(c, v.Scenario)
		fmt.Println(out)
		if strings.HasPrefix(out, "VIOLATION") {
			fmt.Println("REPLAY-RESULT: violation reproduced")
		} else {
			fmt.Println("REPLAY-RESULT: no violation")
		}
		return
	}
	// last-resort watchdog: a busy loop or a goroutine blocked on a real mutex keeps the quiescence
	// oracle from returning; a worker that makes no progress for VERIF_STALL_S seconds dumps its
	// goroutines and exits, and the driver attributes the death to the breadcrumb.
	stall := 150
	if v, err := strconv.Atoi(os.Getenv("VERIF_STALL_S")); err == nil && v > 0 {
		stall = v
	}
	stop := make(chan struct{})
	go func() {
		last, lastT := int64(-1), time.Now()
		for {
			select {
			case <-stop:
				return
			case <-time.After(2 * time.Second):
			}
			c.mu.Lock()
			cur := c.evals + c.trans + c.states + int64(len(c.distinct))
			c.mu.Unlock()
			if cur != last {
				last, lastT = cur, time.Now()
				continue
			}
			if time.Since(lastT) > time.Duration(stall)*time.Second {
				buf := make([]byte, 1<<20)
				n := runtime.Stack(buf, true)
				fmt.Printf("WATCHDOG: no progress for %d s; goroutines:\n%s\n", stall, buf[:n])
				os.Exit(3)
			}
		}
	}()
	h.Run(c)
	close(stop)
	c.write()
}

func keys(m map[uint64]struct{}) []string {
	out := make([]string, 0, len(m))
	for k := range m {
		out = append(out, strconv.FormatUint(k, 36))
	}
	sort.Strings(out)
	return out
}

func (c *Ctx) write() {
	r := Result{ID: c.ID, Shard: fmt.Sprintf("%d/%d", c.Shard, c.NShards), Evaluations: c.evals, States: c.states, Transitions: c.trans,
		Traces: c.traces, Distinct: keys(c.distinct), Nontrivial: keys(c.nontrivial), StateKeys: keys(c.statekeys), Samples: c.samples, Exhaustive: c.exhaustive,
		Caps: c.caps, Extra: c.extra, WallS: time.Since(c.start).Seconds()}
	sigs := make([]string, 0, len(c.viol))
	for s := range c.viol {
		sigs = append(sigs, s)
	}
	sort.Strings(sigs)
	for _, s := range sigs {
		r.Violations = append(r.Violations, c.viol[s])
	}
	out := os.Getenv("VERIF_OUT")
	b, err := json.Marshal(r)
	if err != nil {
		c.T.Fatal(err)
	}
	if out == "" {
		r.Distinct, r.Nontrivial, r.StateKeys = nil, nil, nil
		b, _ = json.MarshalIndent(r, "", " ")
		fmt.Println(string(b))
		fmt.Printf("distinct=%d nontrivial=%d\n", len(c.distinct), len(c.nontrivial))
		return
	}
	if err := os.WriteFile(out, b, 0o644); err != nil {
		c.T.Fatal(err)
	}
}
