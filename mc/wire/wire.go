// Package wire holds the harness's own request encoders and strict reply decoders for the
// memcached text and binary protocols. Nothing here is shared with rend's protocol packages.
package wire

import (
	"bytes"
	"encoding/binary"
	"fmt"
	"sort"
	"strconv"
	"strings"
)

// Op is one client command.
type Op struct {
	Kind    string   `json:"kind"` // set add replace append prepend delete touch get gat gete mget noop version stat quit unknown raw evict advance
	Key     string   `json:"key,omitempty"`
	Keys    []string `json:"keys,omitempty"`    // mget
	Quiet   []bool   `json:"quiet,omitempty"`   // mget, binary: per key GETQ?
	NoopEnd bool     `json:"noopEnd,omitempty"` // mget, binary: closed by NOOP
	Val     string   `json:"val,omitempty"`
	Flags   uint32   `json:"flags,omitempty"`
	TTL     uint32   `json:"ttl,omitempty"`
	Opaque  uint32   `json:"opaque,omitempty"`  // binary: opaque of the request (mget: base, key i gets base+i, noop base+len)
	QuietW  bool     `json:"quietW,omitempty"`  // binary: quiet variant of a write (SETQ ...)
	Opaque0 bool     `json:"opaque0,omitempty"` // handler level: every key of a multi-key get carries opaque 0 (as from the text protocol)
	Port    int      `json:"port,omitempty"`    // 0 main, 1 batch
	Raw     []byte   `json:"raw,omitempty"`
	Sec     uint32   `json:"sec,omitempty"` // advance
	// VLen/VSeed describe a generated value (used instead of Val when VLen >= 0 and VGen is set).
	VGen  bool `json:"vgen,omitempty"`
	VLen  int  `json:"vlen,omitempty"`
	VSeed int  `json:"vseed,omitempty"`
	Spare bool `json:"spare,omitempty"` // present the key as a slice with spare capacity
	// CAS is put into the request header's CAS field (binary). rend ignores the field; it must not
	// leak anywhere.
	CAS uint64 `json:"cas,omitempty"`
	// Gone (full-stack harnesses): the client has gone away by the time the server writes its reply
	// (the write fails); the command itself has been received in full.
	Gone bool `json:"gone,omitempty"`
	// Seg: how the request's bytes reach the server (full-stack harnesses): "" in one piece, "h" the
	// first 24 bytes (a binary header) then the rest, "1" the first byte then the rest, "b" byte by
	// byte, "3" in 3-byte pieces, "l" everything but the last byte, then the last byte.
	Seg string `json:"seg,omitempty"`
}

// Segments cuts b the way seg says.
func Segments(b []byte, seg string) [][]byte {
	cut := func(n int) [][]byte {
		if n <= 0 || n >= len(b) {
			return [][]byte{b}
		}
		return [][]byte{b[:n], b[n:]}
	}
	switch seg {
	case "h":
		return cut(24)
	case "1":
		return cut(1)
	case "l":
		return cut(len(b) - 1)
	case "b", "3":
		step := 1
		if seg == "3" {
			step = 3
		}
		var out [][]byte
		for i := 0; i < len(b); i += step {
			j := i + step
			if j > len(b) {
				j = len(b)
			}
			out = append(out, b[i:j])
		}
		return out
	}
	return [][]byte{b}
}

// Value returns the op's value bytes.
func (o Op) Value() []byte {
	if !o.VGen {
		return []byte(o.Val)
	}
	return GenValue(o.VLen, o.VSeed)
}

// GenValue is a deterministic non-repeating-looking byte pattern without zero bytes (so that
// zero padding can be told apart from data).
func GenValue(n, seed int) []byte {
	b := make([]byte, n)
	x := uint32(seed)*2654435761 + 12345
	for i := range b {
		x = x*1664525 + 1013904223
		v := byte(x >> 24)
		if v == 0 {
			v = byte(seed) | 1
		}
		b[i] = v
	}
	return b
}

// KeyBytes returns the key as a byte slice, with or without spare capacity.
func (o Op) KeyBytes() []byte { return KeySlice(o.Key, o.Spare) }

// KeySlice makes a key slice; with spare capacity the bytes beyond len are 0xEE.
func KeySlice(k string, spare bool) []byte {
	if !spare {
		b := make([]byte, len(k))
		copy(b, k)
		return b[:len(k):len(k)]
	}
	b := make([]byte, len(k)+24)
	for i := range b {
		b[i] = 0xEE
	}
	copy(b, k)
	return b[:len(k)]
}

func (o Op) String() string {
	switch o.Kind {
	case "set", "add", "replace":
		if o.VGen {
			return fmt.Sprintf("%s@%d %s len=%d#%d f=%x ttl=%d spare=%v", o.Kind, o.Port, o.Key, o.VLen, o.VSeed, o.Flags, o.TTL, o.Spare)
		}
		return fmt.Sprintf("%s@%d %s %q f=%x ttl=%d", o.Kind, o.Port, o.Key, o.Val, o.Flags, o.TTL)
	case "append", "prepend":
		if o.VGen {
			return fmt.Sprintf("%s@%d %s len=%d#%d spare=%v", o.Kind, o.Port, o.Key, o.VLen, o.VSeed, o.Spare)
		}
		return fmt.Sprintf("%s@%d %s %q", o.Kind, o.Port, o.Key, o.Val)
	case "touch", "gat":
		return fmt.Sprintf("%s@%d %s ttl=%d", o.Kind, o.Port, o.Key, o.TTL)
	case "mget":
		return fmt.Sprintf("mget@%d %v q=%v noop=%v", o.Port, o.Keys, o.Quiet, o.NoopEnd)
	case "advance":
		return fmt.Sprintf("advance %ds", o.Sec)
	case "raw":
		return fmt.Sprintf("raw %q", o.Raw)
	}
	if o.Spare {
		return fmt.Sprintf("%s@%d %s spare", o.Kind, o.Port, o.Key)
	}
	return fmt.Sprintf("%s@%d %s", o.Kind, o.Port, o.Key)
}

// IsWire reports whether the op is sent on the wire (as opposed to an environment event).
func (o Op) IsWire() bool { return o.Kind != "evict" && o.Kind != "evict-entry" && o.Kind != "advance" }

var binOpcode = map[string]byte{
	"get": 0x00, "set": 0x01, "add": 0x02, "replace": 0x03, "delete": 0x04, "quit": 0x07, "noop": 0x0a,
	"version": 0x0b, "append": 0x0e, "prepend": 0x0f, "stat": 0x10, "touch": 0x1c, "gat": 0x1d, "gete": 0x40,
}
var binQuietOpcode = map[string]byte{"set": 0x11, "add": 0x12, "replace": 0x13, "append": 0x19, "prepend": 0x1a, "quit": 0x17}

// BinFrame builds a raw binary request frame.
func BinFrame(opcode byte, opaque uint32, extras, key, val []byte) []byte {
	b := make([]byte, 24, 24+len(extras)+len(key)+len(val))
	b[0] = 0x80
	b[1] = opcode
	binary.BigEndian.PutUint16(b[2:4], uint16(len(key)))
	b[4] = byte(len(extras))
	binary.BigEndian.PutUint32(b[8:12], uint32(len(extras)+len(key)+len(val)))
	binary.BigEndian.PutUint32(b[12:16], opaque)
	b = append(b, extras...)
	b = append(b, key...)
	b = append(b, val...)
	return b
}

func u32(v uint32) []byte {
	b := make([]byte, 4)
	binary.BigEndian.PutUint32(b, v)
	return b
}

// EncodeBinary renders the op in the binary protocol.
func EncodeBinary(o Op) []byte {
	b := encodeBinary(o)
	if o.CAS != 0 && len(b) >= 24 && o.Kind != "raw" {
		binary.BigEndian.PutUint64(b[16:24], o.CAS)
	}
	return b
}

func encodeBinary(o Op) []byte {
	switch o.Kind {
	case "raw":
		return o.Raw
	case "set", "add", "replace":
		oc := binOpcode[o.Kind]
		if o.QuietW {
			oc = binQuietOpcode[o.Kind]
		}
		return BinFrame(oc, o.Opaque, append(u32(o.Flags), u32(o.TTL)...), []byte(o.Key), []byte(o.Val))
	case "append", "prepend":
		oc := binOpcode[o.Kind]
		if o.QuietW {
			oc = binQuietOpcode[o.Kind]
		}
		return BinFrame(oc, o.Opaque, nil, []byte(o.Key), []byte(o.Val))
	case "delete", "get", "gete":
		return BinFrame(binOpcode[o.Kind], o.Opaque, nil, []byte(o.Key), nil)
	case "touch", "gat":
		return BinFrame(binOpcode[o.Kind], o.Opaque, u32(o.TTL), []byte(o.Key), nil)
	case "noop", "version", "stat":
		return BinFrame(binOpcode[o.Kind], o.Opaque, nil, nil, nil)
	case "quit":
		oc := binOpcode["quit"]
		if o.QuietW {
			oc = binQuietOpcode["quit"]
		}
		return BinFrame(oc, o.Opaque, nil, nil, nil)
	case "unknown":
		return BinFrame(0x05, o.Opaque, nil, nil, nil) // increment: not supported by rend
	case "mget":
		var out []byte
		for i, k := range o.Keys {
			oc := byte(0x09)
			if !o.Quiet[i] {
				oc = 0x00
			}
			out = append(out, BinFrame(oc, o.Opaque+uint32(i), nil, []byte(k), nil)...)
		}
		if o.NoopEnd {
			out = append(out, BinFrame(0x0a, o.Opaque+uint32(len(o.Keys)), nil, nil, nil)...)
		}
		return out
	}
	panic("wire: cannot encode " + o.Kind + " in binary")
}

// EncodeText renders the op in the text protocol.
func EncodeText(o Op) []byte {
	switch o.Kind {
	case "raw":
		return o.Raw
	case "set", "add", "replace", "append", "prepend":
		return []byte(fmt.Sprintf("%s %s %d %d %d\r\n%s\r\n", o.Kind, o.Key, o.Flags, o.TTL, len(o.Val), o.Val))
	case "delete":
		return []byte("delete " + o.Key + "\r\n")
	case "touch":
		return []byte(fmt.Sprintf("touch %s %d\r\n", o.Key, o.TTL))
	case "get":
		return []byte("get " + o.Key + "\r\n")
	case "mget":
		return []byte("get " + strings.Join(o.Keys, " ") + "\r\n")
	case "noop":
		return []byte("noop\r\n")
	case "version":
		return []byte("version\r\n")
	case "stat":
		return []byte("stats\r\n")
	case "quit":
		return []byte("quit\r\n")
	case "unknown":
		return []byte("bogus " + o.Key + "\r\n")
	}
	panic("wire: cannot encode " + o.Kind + " in text")
}

// Encode renders the op in the given protocol ("text"/"binary").
func Encode(proto string, o Op) []byte {
	if proto == "text" {
		return EncodeText(o)
	}
	return EncodeBinary(o)
}

// TextSupports reports whether the text protocol (as rend parses it) has the op.
func TextSupports(o Op) bool {
	switch o.Kind {
	case "gat", "gete":
		return false
	case "mget":
		for _, q := range o.Quiet {
			if q {
				return false
			}
		}
		return !o.NoopEnd
	}
	return !o.QuietW
}

// Hit is one value returned by a get.
type Hit struct {
	Key   string `json:"key,omitempty"`
	Val   string `json:"val"`
	Flags uint32 `json:"flags"`
	TTL   uint32 `json:"ttl,omitempty"`
	Idx   int    `json:"idx"` // index of the key in the request (binary) or -1
	// Raw is the byte slice a handler returned, kept until the harness decides to look at it
	// (a handler that hands out a slice of a buffer it reuses is caught that way).
	Raw []byte `json:"-"`
}

// Reply is what the client observed for one request.
type Reply struct {
	// Class: "ok", "refused" (protocol-defined refusal), "error" (any other error reply), "values"
	// (get family), "none" (nothing attributable), "closed".
	Class     string `json:"class"`
	Detail    string `json:"detail,omitempty"` // refusal/error text or status
	Hits      []Hit  `json:"hits,omitempty"`
	Misses    int    `json:"misses,omitempty"` // explicit not-found replies (binary non-quiet)
	Terms     int    `json:"terms"`            // terminators seen
	Frames    int    `json:"frames"`           // reply frames / lines attributed
	Errs      int    `json:"errs,omitempty"`   // error replies seen in the span of this request
	Malformed string `json:"malformed,omitempty"`
}

// Canon renders the reply with values in a canonical order: the order of VALUE blocks within one
// get reply is not part of what the properties compare (clients match values by key / opaque).
func (r Reply) Canon() string {
	c := r
	c.Hits = append([]Hit(nil), r.Hits...)
	sort.Slice(c.Hits, func(i, j int) bool {
		a, b := c.Hits[i], c.Hits[j]
		if a.Idx != b.Idx {
			return a.Idx < b.Idx
		}
		if a.Key != b.Key {
			return a.Key < b.Key
		}
		return a.Val < b.Val
	})
	return c.String()
}

func (r Reply) String() string {
	s := r.Class
	if r.Detail != "" {
		s += "(" + r.Detail + ")"
	}
	if r.Class == "values" {
		s += fmt.Sprintf("%v miss=%d terms=%d", r.Hits, r.Misses, r.Terms)
	}
	if r.Malformed != "" {
		s += " MALFORMED:" + r.Malformed
	}
	return s
}

// ---------------------------------------------------------------------------------------------
// text decoding

type textReader struct {
	b   []byte
	pos int
}

// line returns the next CRLF-terminated line; malformed is set when a bare LF ends the line or
// the stream ends inside the line.
func (t *textReader) line() (s string, ok bool, malformed string) {
	if t.pos >= len(t.b) {
		return "", false, ""
	}
	rest := t.b[t.pos:]
	i := bytes.IndexByte(rest, '\n')
	if i < 0 {
		t.pos = len(t.b)
		return string(rest), true, "unterminated line"
	}
	t.pos += i + 1
	if i == 0 || rest[i-1] != '\r' {
		return string(rest[:i]), true, "line ends in bare LF"
	}
	return string(rest[:i-1]), true, ""
}

var textRefusals = map[string]bool{"NOT_STORED": true, "NOT_FOUND": true, "EXISTS": true}

func isErrLine(l string) bool {
	return strings.HasPrefix(l, "ERROR") || strings.HasPrefix(l, "CLIENT_ERROR") || strings.HasPrefix(l, "SERVER_ERROR")
}

// DecodeText attributes the text reply stream to the requests, in order. It returns one Reply
// per op and the number of unattributed trailing bytes.
func DecodeText(stream []byte, ops []Op) (reps []Reply, trailing int) {
	t := &textReader{b: stream}
	for _, o := range ops {
		var r Reply
		switch o.Kind {
		case "get", "mget":
			r.Class = "values"
			for {
				l, ok, mal := t.line()
				if !ok {
					if r.Frames == 0 {
						r.Class = "none"
					} else {
						r.Malformed = "get reply not terminated"
					}
					break
				}
				r.Frames++
				if mal != "" {
					r.Malformed = mal
				}
				if l == "END" {
					r.Terms++
					break
				}
				if strings.HasPrefix(l, "VALUE ") {
					f := strings.Split(l, " ")
					if len(f) != 4 {
						r.Malformed = "bad VALUE line " + strconv.Quote(l)
						break
					}
					fl, e1 := strconv.ParseUint(f[2], 10, 32)
					n, e2 := strconv.ParseUint(f[3], 10, 32)
					if e1 != nil || e2 != nil || t.pos+int(n)+2 > len(t.b) {
						r.Malformed = "bad VALUE header or short data " + strconv.Quote(l)
						t.pos = len(t.b)
						break
					}
					v := string(t.b[t.pos : t.pos+int(n)])
					if string(t.b[t.pos+int(n):t.pos+int(n)+2]) != "\r\n" {
						r.Malformed = "data block not followed by CRLF"
					}
					t.pos += int(n) + 2
					r.Hits = append(r.Hits, Hit{Key: f[1], Val: v, Flags: uint32(fl), Idx: -1})
					continue
				}
				if isErrLine(l) || textRefusals[l] {
					r.Class = "error"
					r.Detail = l
					break
				}
				r.Malformed = "unexpected line in get reply " + strconv.Quote(l)
				break
			}
		case "stat":
			r.Class = "ok"
			for {
				l, ok, mal := t.line()
				if !ok {
					if r.Frames == 0 {
						r.Class = "none"
					} else {
						r.Malformed = "stats reply not terminated"
					}
					break
				}
				r.Frames++
				if mal != "" {
					r.Malformed = mal
				}
				if l == "END" {
					r.Terms++
					break
				}
				if !strings.HasPrefix(l, "STAT ") {
					if isErrLine(l) {
						r.Class, r.Detail = "error", l
					} else {
						r.Malformed = "unexpected line in stats reply " + strconv.Quote(l)
					}
					break
				}
			}
		default:
			l, ok, mal := t.line()
			if !ok {
				r.Class = "none"
				break
			}
			r.Frames = 1
			r.Malformed = mal
			want := map[string]string{"set": "STORED", "add": "STORED", "replace": "STORED", "append": "STORED", "prepend": "STORED",
				"delete": "DELETED", "touch": "TOUCHED", "noop": "Yep, it works.", "quit": "Bye"}[o.Kind]
			switch {
			case want != "" && l == want:
				r.Class = "ok"
			case o.Kind == "version" && strings.HasPrefix(l, "VERSION "):
				r.Class = "ok"
			case textRefusals[l]:
				r.Class, r.Detail = "refused", l
			case isErrLine(l):
				r.Class, r.Detail = "error", l
			default:
				r.Class, r.Detail = "error", l
				r.Malformed = "unexpected reply line " + strconv.Quote(l)
			}
		}
		reps = append(reps, r)
	}
	return reps, len(t.b) - t.pos
}

// DecodeSpan decodes the bytes the server produced while serving exactly one request.
func DecodeSpan(proto string, span []byte, op Op) Reply {
	if proto == "text" {
		reps, trailing := DecodeText(span, []Op{op})
		r := reps[0]
		if trailing > 0 && (op.Kind == "get" || op.Kind == "mget") && r.Class == "values" && r.Malformed == "" {
			// more VALUE/END groups for the same request: keep counting
			rest := span[len(span)-trailing:]
			for len(rest) > 0 {
				more, tr := DecodeText(rest, []Op{op})
				m := more[0]
				if m.Class != "values" || m.Malformed != "" {
					r.Malformed = "unexpected bytes after get reply: " + strconv.Quote(string(rest))
					break
				}
				r.Hits = append(r.Hits, m.Hits...)
				r.Terms += m.Terms
				r.Frames += m.Frames
				rest = rest[len(rest)-tr:]
			}
		} else if trailing > 0 && r.Malformed == "" {
			r.Malformed = "unexpected bytes after reply: " + strconv.Quote(string(span[len(span)-trailing:]))
		}
		return r
	}
	reps, un, mal := DecodeBinary(span, []Op{op})
	r := reps[0]
	if mal != "" && r.Malformed == "" {
		r.Malformed = mal
	}
	if un > 0 && r.Malformed == "" {
		r.Malformed = fmt.Sprintf("%d reply frame(s) not carrying the request's opaque", un)
	}
	if r.Class == "error" {
		r.Errs++
	}
	return r
}

// DecodeSpanLenient is DecodeSpan for fault scenarios: a binary error reply is accepted as "an
// error reply" whatever opaque it carries (rend answers a failed get with opaque 0).
func DecodeSpanLenient(proto string, span []byte, op Op) Reply {
	r := DecodeSpan(proto, span, op)
	if proto == "text" {
		if r.Class == "error" {
			r.Errs = 1
		}
		return r
	}
	if strings.HasSuffix(r.Malformed, "not carrying the request's opaque") {
		frames, mal, _ := DecodeBinFrames(span)
		if mal != "" {
			return r
		}
		lo, hi := op.Opaque, op.Opaque+uint32(len(op.Keys))+1
		allErr := true
		n := 0
		for _, f := range frames {
			if f.Opaque >= lo && f.Opaque <= hi {
				continue
			}
			n++
			if f.Status == 0 {
				allErr = false
			}
		}
		if allErr && n > 0 {
			r.Malformed = ""
			r.Errs += n
			if r.Class == "none" {
				r.Class = "error"
			}
		}
	}
	return r
}

// ---------------------------------------------------------------------------------------------
// binary decoding

// BinReply is one decoded response frame.
type BinReply struct {
	Opcode byte
	Status uint16
	Opaque uint32
	Extras []byte
	Key    []byte
	Val    []byte
	Pos    int
}

// DecodeBinFrames splits a stream into response frames, strictly.
func DecodeBinFrames(stream []byte) (frames []BinReply, malformed string, trailing int) {
	pos := 0
	for pos < len(stream) {
		rest := stream[pos:]
		if len(rest) < 24 {
			return frames, "truncated header", len(rest)
		}
		if rest[0] != 0x81 {
			return frames, fmt.Sprintf("bad magic %#x at %d", rest[0], pos), len(rest)
		}
		kl := int(binary.BigEndian.Uint16(rest[2:4]))
		el := int(rest[4])
		tot := int(binary.BigEndian.Uint32(rest[8:12]))
		if rest[5] != 0 {
			return frames, "non-zero data type", len(rest)
		}
		if kl+el > tot {
			return frames, fmt.Sprintf("key+extras %d exceeds total body %d", kl+el, tot), len(rest)
		}
		if len(rest) < 24+tot {
			return frames, fmt.Sprintf("truncated body: have %d want %d", len(rest)-24, tot), len(rest)
		}
		body := rest[24 : 24+tot]
		frames = append(frames, BinReply{
			Opcode: rest[1], Status: binary.BigEndian.Uint16(rest[6:8]), Opaque: binary.BigEndian.Uint32(rest[12:16]),
			Extras: body[:el], Key: body[el : el+kl], Val: body[el+kl:], Pos: pos,
		})
		pos += 24 + tot
	}
	return frames, "", 0
}

var binRefusals = map[uint16]string{1: "NOT_FOUND", 2: "EXISTS", 5: "NOT_STORED"}

// DecodeBinary attributes binary reply frames to requests by opaque. Every op must have been
// given an opaque range disjoint from every other op's (see AssignOpaques).
func DecodeBinary(stream []byte, ops []Op) (reps []Reply, unattributed int, malformed string) {
	frames, mal, _ := DecodeBinFrames(stream)
	used := make([]bool, len(frames))
	for _, o := range ops {
		var r Reply
		switch o.Kind {
		case "mget", "get", "gat", "gete":
			keys := o.Keys
			quiet := o.Quiet
			if o.Kind != "mget" {
				keys = []string{o.Key}
				quiet = []bool{false}
			}
			r.Class = "values"
			lastVal := -1
			for i := range keys {
				op := o.Opaque + uint32(i)
				n := 0
				for fi, f := range frames {
					if used[fi] || f.Opaque != op || f.Opcode == 0x0a {
						continue
					}
					used[fi] = true
					n++
					r.Frames++
					if fi > lastVal {
						lastVal = fi
					}
					wantEx := 4
					if o.Kind == "gete" {
						wantEx = 8
					}
					switch {
					case f.Status == 0:
						if len(f.Extras) != wantEx || len(f.Key) != 0 {
							r.Malformed = fmt.Sprintf("value frame with extras=%d key=%d", len(f.Extras), len(f.Key))
							continue
						}
						h := Hit{Key: keys[i], Val: string(f.Val), Flags: binary.BigEndian.Uint32(f.Extras[:4]), Idx: i}
						if wantEx == 8 {
							h.TTL = binary.BigEndian.Uint32(f.Extras[4:8])
						}
						r.Hits = append(r.Hits, h)
					case f.Status == 1:
						r.Misses++
						if quiet[i] {
							r.Malformed = "not-found reply to a quiet get"
						}
					default:
						r.Class = "error"
						r.Detail = fmt.Sprintf("status %#x", f.Status)
					}
				}
				if n > 1 {
					r.Malformed = fmt.Sprintf("%d replies for key %d", n, i)
				}
			}
			if o.Kind == "mget" && o.NoopEnd {
				op := o.Opaque + uint32(len(keys))
				for fi, f := range frames {
					if used[fi] || f.Opaque != op || f.Opcode != 0x0a {
						continue
					}
					used[fi] = true
					r.Frames++
					r.Terms++
					if f.Status != 0 || len(f.Extras)+len(f.Key)+len(f.Val) != 0 {
						r.Malformed = "noop terminator with status/body"
					}
					if fi < lastVal {
						r.Malformed = "terminator before a value of the same batch"
					}
				}
			}
			if r.Frames == 0 {
				allQuiet := true
				for _, q := range quiet {
					allQuiet = allQuiet && q
				}
				if !(allQuiet && !o.NoopEnd) {
					r.Class = "none"
				}
			}
		default:
			n := 0
			for fi, f := range frames {
				if used[fi] || f.Opaque != o.Opaque {
					continue
				}
				used[fi] = true
				n++
				r.Frames++
				if o.Kind == "stat" {
					if f.Opcode != 0x10 {
						r.Malformed = fmt.Sprintf("stat reply with opcode %#x", f.Opcode)
					}
					if len(f.Key) == 0 && len(f.Val) == 0 {
						r.Terms++
					}
					r.Class = "ok"
					if f.Status != 0 {
						r.Class, r.Detail = "error", fmt.Sprintf("status %#x", f.Status)
					}
					continue
				}
				switch {
				case f.Status == 0:
					r.Class = "ok"
				case binRefusals[f.Status] != "":
					r.Class, r.Detail = "refused", binRefusals[f.Status]
				default:
					r.Class, r.Detail = "error", fmt.Sprintf("status %#x", f.Status)
				}
				if o.Kind != "version" && f.Status == 0 && len(f.Extras)+len(f.Key)+len(f.Val) != 0 {
					r.Malformed = "success reply with a body"
				}
			}
			if n == 0 {
				r.Class = "none"
			}
			if n > 1 && o.Kind != "stat" {
				r.Malformed = fmt.Sprintf("%d replies for one request", n)
			}
		}
		reps = append(reps, r)
	}
	for i := range frames {
		if !used[i] {
			unattributed++
		}
	}
	return reps, unattributed, mal
}

// AssignOpaques gives every wire op a distinct opaque range (spacing 16).
func AssignOpaques(ops []Op, base uint32) {
	for i := range ops {
		ops[i].Opaque = base + uint32(i)*16
	}
}
