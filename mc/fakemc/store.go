// Package fakemc is a deterministic in-memory memcached speaking the subset of the binary
// protocol that rend's backend handlers emit. It is the only backend used by the harnesses.
package fakemc

import (
	"encoding/binary"
	"fmt"
	"sort"
	"sync"
	"time"
)

// Opcodes understood by the fake.
const (
	OpGet     = 0x00
	OpSet     = 0x01
	OpAdd     = 0x02
	OpReplace = 0x03
	OpDelete  = 0x04
	OpGetQ    = 0x09
	OpNoop    = 0x0a
	OpAppend  = 0x0e
	OpPrepend = 0x0f
	OpTouch   = 0x1c
	OpGat     = 0x1d
	OpGatQ    = 0x1e
	OpGetE    = 0x40
	OpGetEQ   = 0x41
)

// Status codes.
const (
	StOK         = 0x00
	StNotFound   = 0x01
	StExists     = 0x02
	StTooBig     = 0x03
	StInval      = 0x04
	StNotStored  = 0x05
	StUnknownCmd = 0x81
	StNoMem      = 0x82
	StNotSupp    = 0x83
	StInternal   = 0x84
	StBusy       = 0x85
	StTempFail   = 0x86
)

// StatusBody is the textual body memcached puts on error replies.
func StatusBody(st uint16) string {
	switch st {
	case StNotFound:
		return "Not found"
	case StExists:
		return "Data exists for key."
	case StTooBig:
		return "Too large."
	case StInval:
		return "Invalid arguments"
	case StNotStored:
		return "Not stored."
	case StUnknownCmd:
		return "Unknown command"
	case StNoMem:
		return "Out of memory"
	case StNotSupp:
		return "Not supported"
	case StInternal:
		return "Internal error"
	case StBusy:
		return "Busy"
	case StTempFail:
		return "Temporary failure"
	}
	return "Error"
}

const thirtyDays = 60 * 60 * 24 * 30

// Item is one stored entry. Exp is an absolute unix time in seconds, 0 = never.
type Item struct {
	Val   []byte
	Flags uint32
	Exp   uint32
	CAS   uint64 // unique per mutation, as memcached's
}

// ReqLog is one request as seen by the backend.
type ReqLog struct {
	Conn    string
	Op      byte
	Key     string
	ValLen  int
	Flags   uint32
	Exptime uint32
	Status  uint16
}

// Store is the key-value map behind any number of connections.
type Store struct {
	Name  string
	M     map[string]*Item
	Log   []ReqLog
	LogOn bool
	// NowFn returns the current unix time; defaults to time.Now (virtual inside a synctest bubble).
	NowFn  func() uint32
	casSeq uint64
	// Opened / Closed connection counters (C15).
	Opened, Closed int
	// Locked makes Handle and the counters take Mu (free-running race passes only).
	Locked bool
	Mu     sync.Mutex
}

// NewStore makes an empty store.
func NewStore(name string) *Store {
	return &Store{Name: name, M: map[string]*Item{}}
}

// Now is the store's clock.
func (s *Store) Now() uint32 {
	if s.NowFn != nil {
		return s.NowFn()
	}
	return uint32(time.Now().Unix())
}

// Clone deep-copies contents (not logs).
func (s *Store) Clone() *Store {
	n := NewStore(s.Name)
	n.NowFn = s.NowFn
	n.LogOn = s.LogOn
	for k, v := range s.M {
		n.M[k] = &Item{Val: append([]byte(nil), v.Val...), Flags: v.Flags, Exp: v.Exp, CAS: v.CAS}
	}
	return n
}

func (s *Store) deadline(ttl uint32) (exp uint32, gone bool) {
	if ttl == 0 {
		return 0, false
	}
	now := s.Now()
	if ttl > thirtyDays {
		return ttl, ttl <= now
	}
	return now + ttl, false
}

// Lookup returns the live item or nil, lazily removing an expired one.
func (s *Store) Lookup(key string) *Item {
	it, ok := s.M[key]
	if !ok {
		return nil
	}
	if it.Exp != 0 && it.Exp <= s.Now() {
		delete(s.M, key)
		return nil
	}
	return it
}

// Purge drops all expired items.
func (s *Store) Purge() {
	for k := range s.M {
		s.Lookup(k)
	}
}

// Evict removes an entry (models LRU eviction / loss). Reports whether it existed.
func (s *Store) Evict(key string) bool {
	_, ok := s.M[key]
	delete(s.M, key)
	return ok
}

// Keys returns the live keys, sorted.
func (s *Store) Keys() []string {
	s.Purge()
	ks := make([]string, 0, len(s.M))
	for k := range s.M {
		ks = append(ks, k)
	}
	sort.Strings(ks)
	return ks
}

// Dump is a canonical rendering of the live contents with deadlines relative to now.
func (s *Store) Dump() string {
	now := s.Now()
	out := ""
	for _, k := range s.Keys() {
		it := s.M[k]
		rel := int64(-1)
		if it.Exp != 0 {
			rel = int64(it.Exp) - int64(now)
		}
		out += fmt.Sprintf("%q=%q/%x/%d;", k, it.Val, it.Flags, rel)
	}
	return out
}

// Frame is one parsed request.
type Frame struct {
	Op      byte
	Opaque  uint32
	Extras  []byte
	Key     []byte
	Val     []byte
	RawLen  int
	Flags   uint32
	Exptime uint32
	CAS     uint64
}

func (f *Frame) String() string {
	return fmt.Sprintf("op=%#02x key=%q vlen=%d exp=%d", f.Op, f.Key, len(f.Val), f.Exptime)
}

// ParseFrame parses one request from buf; ok=false if incomplete. bad=true if not a request.
func ParseFrame(buf []byte) (f *Frame, n int, ok bool, bad bool) {
	if len(buf) < 24 {
		if len(buf) > 0 && buf[0] != 0x80 {
			return nil, 0, false, true
		}
		return nil, 0, false, false
	}
	if buf[0] != 0x80 {
		return nil, 0, false, true
	}
	kl := int(binary.BigEndian.Uint16(buf[2:4]))
	el := int(buf[4])
	tot := int(binary.BigEndian.Uint32(buf[8:12]))
	if tot < kl+el {
		return nil, 0, false, true
	}
	if len(buf) < 24+tot {
		return nil, 0, false, false
	}
	f = &Frame{Op: buf[1], Opaque: binary.BigEndian.Uint32(buf[12:16]), RawLen: 24 + tot, CAS: binary.BigEndian.Uint64(buf[16:24])}
	body := buf[24 : 24+tot]
	f.Extras = append([]byte(nil), body[:el]...)
	f.Key = append([]byte(nil), body[el:el+kl]...)
	f.Val = append([]byte(nil), body[el+kl:]...)
	switch f.Op {
	case OpSet, OpAdd, OpReplace:
		if el == 8 {
			f.Flags = binary.BigEndian.Uint32(f.Extras[0:4])
			f.Exptime = binary.BigEndian.Uint32(f.Extras[4:8])
		}
	case OpTouch, OpGat, OpGatQ:
		if el == 4 {
			f.Exptime = binary.BigEndian.Uint32(f.Extras[0:4])
		}
	}
	return f, 24 + tot, true, false
}

// Reply builds a response frame.
func Reply(op byte, status uint16, opaque uint32, extras, val []byte) []byte {
	b := make([]byte, 24, 24+len(extras)+len(val))
	b[0] = 0x81
	b[1] = op
	b[4] = byte(len(extras))
	binary.BigEndian.PutUint16(b[6:8], status)
	binary.BigEndian.PutUint32(b[8:12], uint32(len(extras)+len(val)))
	binary.BigEndian.PutUint32(b[12:16], opaque)
	if status == StOK && (op == OpSet || op == OpAdd || op == OpReplace || op == OpAppend || op == OpPrepend) {
		b[23] = 1 // some CAS value
	}
	b = append(b, extras...)
	b = append(b, val...)
	return b
}

// ErrReply builds an error response with memcached's textual body.
func ErrReply(op byte, status uint16, opaque uint32) []byte {
	return Reply(op, status, opaque, nil, []byte(StatusBody(status)))
}

// Handle executes one request and returns the reply bytes (empty for silent quiet misses).
func (s *Store) Handle(conn string, f *Frame) []byte {
	if s.Locked {
		s.Mu.Lock()
		defer s.Mu.Unlock()
	}
	st, rep := s.handle(f)
	if s.LogOn {
		s.Log = append(s.Log, ReqLog{Conn: conn, Op: f.Op, Key: string(f.Key), ValLen: len(f.Val), Flags: f.Flags, Exptime: f.Exptime, Status: st})
	}
	return rep
}

// casRefusal applies memcached's compare-and-swap rule to a mutating request that carries a
// non-zero CAS (rend itself never sends one: its request headers zero the field).
func casRefusal(f *Frame, it *Item) uint16 {
	if f.CAS == 0 {
		return StOK
	}
	if it == nil {
		return StNotFound
	}
	if it.CAS != f.CAS {
		return StExists
	}
	return StOK
}

func (s *Store) nextCAS() uint64 { s.casSeq++; return 1000 + s.casSeq }

func (s *Store) handle(f *Frame) (uint16, []byte) {
	key := string(f.Key)
	e := func(st uint16) (uint16, []byte) { return st, ErrReply(f.Op, st, f.Opaque) }
	switch f.Op {
	case OpNoop:
		return StOK, Reply(OpNoop, StOK, f.Opaque, nil, nil)
	case OpGet, OpGetQ, OpGetE, OpGetEQ:
		if len(f.Extras) != 0 || len(f.Val) != 0 || len(f.Key) == 0 {
			return e(StInval)
		}
		it := s.Lookup(key)
		quiet := f.Op == OpGetQ || f.Op == OpGetEQ
		if it == nil {
			if quiet {
				return StNotFound, nil
			}
			return e(StNotFound)
		}
		ex := make([]byte, 4, 8)
		binary.BigEndian.PutUint32(ex, it.Flags)
		if f.Op == OpGetE || f.Op == OpGetEQ {
			rem := uint32(0)
			if it.Exp != 0 {
				rem = it.Exp - s.Now()
			}
			ex = ex[:8]
			binary.BigEndian.PutUint32(ex[4:], rem)
		}
		return StOK, Reply(f.Op, StOK, f.Opaque, ex, it.Val)
	case OpGat, OpGatQ:
		if len(f.Extras) != 4 || len(f.Val) != 0 || len(f.Key) == 0 {
			return e(StInval)
		}
		it := s.Lookup(key)
		if it == nil {
			if f.Op == OpGatQ {
				return StNotFound, nil
			}
			return e(StNotFound)
		}
		ex := make([]byte, 4)
		binary.BigEndian.PutUint32(ex, it.Flags)
		rep := Reply(f.Op, StOK, f.Opaque, ex, it.Val)
		exp, gone := s.deadline(f.Exptime)
		it.Exp = exp
		if gone {
			delete(s.M, key)
		}
		return StOK, rep
	case OpTouch:
		if len(f.Extras) != 4 || len(f.Val) != 0 || len(f.Key) == 0 {
			return e(StInval)
		}
		it := s.Lookup(key)
		if it == nil {
			return e(StNotFound)
		}
		exp, gone := s.deadline(f.Exptime)
		it.Exp = exp
		if gone {
			delete(s.M, key)
		}
		// real memcached answers touch with the flags as extras and no value
		ex := make([]byte, 4)
		binary.BigEndian.PutUint32(ex, it.Flags)
		return StOK, Reply(f.Op, StOK, f.Opaque, ex, nil)
	case OpSet, OpAdd, OpReplace:
		if len(f.Extras) != 8 || len(f.Key) == 0 {
			return e(StInval)
		}
		it := s.Lookup(key)
		if f.Op == OpAdd && it != nil {
			return e(StExists)
		}
		if f.Op == OpReplace && it == nil {
			return e(StNotFound)
		}
		if f.Op != OpAdd {
			if st := casRefusal(f, it); st != StOK {
				return e(st)
			}
		}
		exp, gone := s.deadline(f.Exptime)
		if gone {
			delete(s.M, key)
		} else {
			s.M[key] = &Item{Val: append([]byte(nil), f.Val...), Flags: f.Flags, Exp: exp, CAS: s.nextCAS()}
		}
		return StOK, Reply(f.Op, StOK, f.Opaque, nil, nil)
	case OpAppend, OpPrepend:
		if len(f.Extras) != 0 || len(f.Key) == 0 {
			return e(StInval)
		}
		it := s.Lookup(key)
		if it == nil {
			return e(StNotStored)
		}
		if st := casRefusal(f, it); st != StOK {
			return e(st)
		}
		it.CAS = s.nextCAS()
		if f.Op == OpAppend {
			it.Val = append(append([]byte(nil), it.Val...), f.Val...)
		} else {
			it.Val = append(append([]byte(nil), f.Val...), it.Val...)
		}
		return StOK, Reply(f.Op, StOK, f.Opaque, nil, nil)
	case OpDelete:
		if len(f.Extras) != 0 || len(f.Val) != 0 || len(f.Key) == 0 {
			return e(StInval)
		}
		it := s.Lookup(key)
		if it == nil {
			return e(StNotFound)
		}
		if st := casRefusal(f, it); st != StOK {
			return e(st)
		}
		delete(s.M, key)
		return StOK, Reply(f.Op, StOK, f.Opaque, nil, nil)
	}
	return e(StUnknownCmd)
}
