package fakemc

import (
	"errors"
	"io"
	"net"
	"runtime"
	"sync"
	"time"
)

// FaultKind enumerates what a backend connection can do wrong for one request.
type FaultKind int

const (
	FNone            FaultKind = iota
	FStatus                    // answer with error status (+ body) instead of processing
	FCloseBefore               // close without processing
	FCloseAfterProc            // process, close before any reply byte
	FCloseAfterBytes           // process, send K reply bytes, close
	FCloseAfterReply           // process, send the whole reply, close
)

func (k FaultKind) String() string {
	return [...]string{"none", "status", "close-before", "close-after-proc", "close-after-bytes", "close-after-reply"}[k]
}

// Fault is a deviation applied to one request index on one connection.
type Fault struct {
	Kind   FaultKind
	Status uint16
	K      int
}

// SpinLimit is the number of consecutive reads after EOF / close tolerated before the reading
// goroutine is stopped and the connection is flagged as spun on.
const SpinLimit = 64

// ErrClosed is returned for writes on a connection the backend has closed.
var ErrClosed = errors.New("fakemc: connection closed by backend")

// Conn is one backend connection. In the default (synchronous) mode the reply to a request is
// produced inside Write; a Read that finds nothing to read and nothing in flight can never be
// satisfied, so it is recorded as a hang and the reading goroutine is ended with runtime.Goexit
// (deferred functions run, nothing panics). In async mode Read blocks until data arrives.
type Conn struct {
	S    *Store
	Name string
	// Local is what LocalAddr reports (the proxy's own ephemeral address).
	Local string

	mu   sync.Mutex
	cond *sync.Cond

	in  []byte
	out []byte

	PeerClosed  bool // backend closed it
	LocalClosed bool // handler closed it
	NReq        int
	Faults      map[int]Fault

	// Before is called (without the lock) before each complete request frame is processed.
	// It is the scheduler hook: it may park the calling goroutine.
	Before func(c *Conn, f *Frame)
	// BeforeRead is called (without the lock) before a Read that will hand out reply bytes: the
	// scheduler hook for "the next piece of the reply arrives". ReadCap > 0 limits what one Read
	// hands out (replies arrive in pieces of at most that many bytes).
	BeforeRead func(c *Conn)
	ReadCap    int
	// Hold, when set, makes Write queue complete frames instead of processing them; Deliver
	// processes the next queued frame (used by the pool harness).
	Hold    bool
	pending []*Frame

	Async bool

	// StallBytes > 0 models a full socket send buffer: a single Write of more than StallBytes
	// bytes delivers the first StallBytes, then blocks until Drain is called, and only then takes
	// the remaining bytes *from the caller's slice as it is at that moment*.
	StallBytes int
	stallCh    chan struct{}
	// SendShut: the backend has shut down its sending side only (half-closed connection): reads
	// see a clean end of stream once the unread reply bytes are consumed; the backend no longer
	// reads either, so a stalled Write stays stalled until the handler closes its side.
	SendShut bool

	// Dead is closed when Hung or Spun is set: whoever waits for the call that was using the
	// connection learns that it will never return.
	Dead       chan struct{}
	deadOnce   sync.Once
	Hung       bool // a read that can never be satisfied was attempted
	Spun       bool // SpinLimit reads after EOF/close
	BadRequest bool // handler sent bytes that are not a request frame
	eofReads   int
	Reads      int
	BytesIn    int
}

// NewConn opens a connection to the store.
func NewConn(s *Store, name string) *Conn {
	c := &Conn{S: s, Name: name, Dead: make(chan struct{})}
	c.cond = sync.NewCond(&c.mu)
	if s.Locked {
		s.Mu.Lock()
		defer s.Mu.Unlock()
	}
	s.Opened++
	return c
}

// Retarget points an idle connection at another store (a batching pool kept alive across the
// executions of one bubble serves a fresh backend in each of them) and forgets per-execution
// bookkeeping.
func (c *Conn) Retarget(s *Store) {
	c.mu.Lock()
	defer c.mu.Unlock()
	c.S = s
	c.NReq = 0
	c.Faults = nil
	c.BadRequest = false
}

// Stalled reports whether a Write is blocked on a full send buffer that the backend may still drain.
func (c *Conn) Stalled() bool {
	c.mu.Lock()
	defer c.mu.Unlock()
	return c.stallCh != nil && !c.SendShut
}

// HalfClose is the backend shutting down its sending side while leaving its receiving side open
// and unread.
func (c *Conn) HalfClose() {
	c.mu.Lock()
	c.SendShut = true
	c.cond.Broadcast()
	c.mu.Unlock()
}

// IsSendShut reports whether the backend has half-closed the connection.
func (c *Conn) IsSendShut() bool { c.mu.Lock(); defer c.mu.Unlock(); return c.SendShut }

// Drain lets a stalled Write continue.
func (c *Conn) Drain() {
	c.mu.Lock()
	ch := c.stallCh
	c.stallCh = nil
	c.mu.Unlock()
	if ch != nil {
		close(ch)
	}
}

func (c *Conn) Write(p []byte) (int, error) {
	if c.StallBytes > 0 && len(p) > c.StallBytes {
		n1, err := c.write(p[:c.StallBytes])
		if err != nil {
			return n1, err
		}
		ch := make(chan struct{})
		c.mu.Lock()
		if c.LocalClosed {
			// closed between the two halves of the write: nothing is left to wait for (Close only
			// releases a stall it can see)
			c.mu.Unlock()
			return n1, io.ErrClosedPipe
		}
		c.stallCh = ch
		c.mu.Unlock()
		<-ch
		n2, err := c.write(p[c.StallBytes:])
		return n1 + n2, err
	}
	return c.write(p)
}

func (c *Conn) write(p []byte) (int, error) {
	c.mu.Lock()
	if c.LocalClosed {
		c.mu.Unlock()
		return 0, io.ErrClosedPipe
	}
	if c.PeerClosed {
		c.mu.Unlock()
		return 0, ErrClosed
	}
	c.in = append(c.in, p...)
	c.BytesIn += len(p)
	for {
		f, n, ok, bad := ParseFrame(c.in)
		if bad {
			c.BadRequest = true
			c.PeerClosed = true
			c.cond.Broadcast()
			break
		}
		if !ok {
			break
		}
		c.in = c.in[n:]
		if c.Hold {
			c.pending = append(c.pending, f)
			continue
		}
		c.mu.Unlock()
		if c.Before != nil {
			c.Before(c, f)
		}
		c.mu.Lock()
		c.process(f)
		if c.PeerClosed {
			break
		}
	}
	c.mu.Unlock()
	return len(p), nil
}

// process handles one frame with the fault plan applied. Caller holds mu.
func (c *Conn) process(f *Frame) {
	idx := c.NReq
	c.NReq++
	flt := c.Faults[idx]
	switch flt.Kind {
	case FStatus:
		if flt.Status == StNotFound || flt.Status == StNotStored {
			// "not found"/"not stored" are made truthful: the entry is evicted at this moment (a
			// backend that denies holding a key and then serves it again is not a fault any
			// memcached exhibits)
			c.S.Evict(string(f.Key))
		}
		c.out = append(c.out, ErrReply(f.Op, flt.Status, f.Opaque)...)
		if c.S.LogOn {
			c.S.Log = append(c.S.Log, ReqLog{Conn: c.Name, Op: f.Op, Key: string(f.Key), ValLen: len(f.Val), Flags: f.Flags, Exptime: f.Exptime, Status: flt.Status})
		}
	case FCloseBefore:
		c.PeerClosed = true
	case FCloseAfterProc:
		c.S.Handle(c.Name, f)
		c.PeerClosed = true
	case FCloseAfterBytes:
		rep := c.S.Handle(c.Name, f)
		k := flt.K
		if k > len(rep) {
			k = len(rep)
		}
		c.out = append(c.out, rep[:k]...)
		c.PeerClosed = true
	case FCloseAfterReply:
		c.out = append(c.out, c.S.Handle(c.Name, f)...)
		c.PeerClosed = true
	default:
		c.out = append(c.out, c.S.Handle(c.Name, f)...)
	}
	c.cond.Broadcast()
}

// FaultNext applies a fault to the request that is about to be processed (for use from Before).
func (c *Conn) FaultNext(f Fault) {
	c.mu.Lock()
	defer c.mu.Unlock()
	if c.Faults == nil {
		c.Faults = map[int]Fault{}
	}
	c.Faults[c.NReq] = f
}

// PendingFrames reports queued (held) frames.
func (c *Conn) PendingFrames() int {
	c.mu.Lock()
	defer c.mu.Unlock()
	return len(c.pending)
}

// Deliver processes the next held frame; reports whether there was one.
func (c *Conn) Deliver() bool {
	c.mu.Lock()
	defer c.mu.Unlock()
	if len(c.pending) == 0 || c.PeerClosed || c.SendShut {
		return false
	}
	f := c.pending[0]
	c.pending = c.pending[1:]
	c.process(f)
	return true
}

// DeliverCut processes the next held request like Deliver, lets only the first k bytes of its
// reply through, and severs the connection: a connection lost inside a reply.
func (c *Conn) DeliverCut(k int) bool {
	c.mu.Lock()
	defer c.mu.Unlock()
	if len(c.pending) == 0 || c.PeerClosed {
		return false
	}
	f := c.pending[0]
	before := len(c.out)
	c.process(f)
	if before+k < len(c.out) {
		c.out = c.out[:before+k]
	}
	c.PeerClosed = true
	c.pending = nil
	c.cond.Broadcast()
	return true
}

// IsPeerClosed reports whether the backend side has closed the connection.
func (c *Conn) IsPeerClosed() bool { c.mu.Lock(); defer c.mu.Unlock(); return c.PeerClosed }

// Cut closes the connection from the backend side (models a severed socket).
func (c *Conn) Cut() {
	c.mu.Lock()
	c.PeerClosed = true
	c.pending = nil
	c.cond.Broadcast()
	c.mu.Unlock()
}

// CutKeeping closes the connection after leaving only the first k unread reply bytes readable.
func (c *Conn) CutKeeping(k int) {
	c.mu.Lock()
	if k < len(c.out) {
		c.out = c.out[:k]
	}
	c.PeerClosed = true
	c.pending = nil
	c.cond.Broadcast()
	c.mu.Unlock()
}

func (c *Conn) Read(p []byte) (int, error) {
	c.mu.Lock()
	if c.BeforeRead != nil && len(c.out) > 0 && len(p) > 0 {
		c.mu.Unlock()
		c.BeforeRead(c)
		c.mu.Lock()
	}
	c.Reads++
	for {
		if len(c.out) > 0 {
			if c.ReadCap > 0 && len(p) > c.ReadCap {
				p = p[:c.ReadCap]
			}
			n := copy(p, c.out)
			c.out = c.out[n:]
			c.eofReads = 0
			c.mu.Unlock()
			return n, nil
		}
		if c.PeerClosed || c.LocalClosed || c.SendShut {
			c.eofReads++
			if c.eofReads >= SpinLimit {
				c.Spun = true
				c.markDead()
				c.mu.Unlock()
				if c.Async {
					select {} // park forever (durably blocked inside a bubble)
				}
				runtime.Goexit()
			}
			lc := c.LocalClosed
			c.mu.Unlock()
			if lc {
				return 0, io.ErrClosedPipe
			}
			return 0, io.EOF
		}
		if len(p) == 0 {
			c.mu.Unlock()
			return 0, nil
		}
		if !c.Async {
			c.Hung = true
			c.markDead()
			c.mu.Unlock()
			runtime.Goexit()
		}
		c.cond.Wait()
	}
}

func (c *Conn) markDead() {
	c.deadOnce.Do(func() {
		if c.Dead != nil {
			close(c.Dead)
		}
	})
}

// Close is the handler closing its side.
func (c *Conn) Close() error {
	c.mu.Lock()
	defer c.mu.Unlock()
	if c.LocalClosed {
		return nil
	}
	c.LocalClosed = true
	if c.stallCh != nil {
		// closing a socket fails the write that is blocked on it
		close(c.stallCh)
		c.stallCh = nil
	}
	if c.S.Locked {
		c.S.Mu.Lock()
		c.S.Closed++
		c.S.Mu.Unlock()
	} else {
		c.S.Closed++
	}
	c.cond.Broadcast()
	return nil
}

// Residue reports unread reply bytes and unparsed request bytes: non-zero means the handler has
// lost stream synchronisation (or abandoned a reply).
func (c *Conn) Residue() (unreadReply, partialRequest int) {
	c.mu.Lock()
	defer c.mu.Unlock()
	return len(c.out), len(c.in)
}

// net.Conn plumbing (the batching pool wants a net.Conn).
type addr string

func (a addr) Network() string { return "fake" }
func (a addr) String() string  { return string(a) }

func (c *Conn) LocalAddr() net.Addr {
	if c.Local != "" {
		return addr(c.Local)
	}
	return addr("local")
}
func (c *Conn) RemoteAddr() net.Addr               { return addr(c.Name) }
func (c *Conn) SetDeadline(t time.Time) error      { return nil }
func (c *Conn) SetReadDeadline(t time.Time) error  { return nil }
func (c *Conn) SetWriteDeadline(t time.Time) error { return nil }
