// Package refmodel is the "single memcached-style map" the properties compare rend against.
// It is deliberately boring: one Go map, no tiers, no I/O, no errors other than the
// protocol-defined refusals.
package refmodel

import (
	"fmt"
	"sort"
)

// Outcome classes of a command.
const (
	OK        = "ok"
	NotFound  = "not_found"
	Exists    = "exists"
	NotStored = "not_stored"
)

const thirtyDays = 60 * 60 * 24 * 30

// Entry is one stored value. Deadline is absolute unix seconds, 0 = never.
type Entry struct {
	Val      string
	Flags    uint32
	Deadline uint32
}

// Model is the reference map with an explicit clock.
type Model struct {
	M   map[string]Entry
	Now uint32
}

// New returns an empty model at time now.
func New(now uint32) *Model { return &Model{M: map[string]Entry{}, Now: now} }

// Clone copies the model.
func (m *Model) Clone() *Model {
	n := New(m.Now)
	for k, v := range m.M {
		n.M[k] = v
	}
	return n
}

func (m *Model) deadline(ttl uint32) (uint32, bool) {
	if ttl == 0 {
		return 0, false
	}
	if ttl > thirtyDays {
		return ttl, ttl <= m.Now
	}
	return m.Now + ttl, false
}

// Live returns the entry if present and not expired.
func (m *Model) Live(k string) (Entry, bool) {
	e, ok := m.M[k]
	if !ok {
		return Entry{}, false
	}
	if e.Deadline != 0 && e.Deadline <= m.Now {
		delete(m.M, k)
		return Entry{}, false
	}
	return e, true
}

// Store performs set/add/replace; returns the outcome class.
func (m *Model) Store(kind, k, v string, flags, ttl uint32) string {
	_, live := m.Live(k)
	switch kind {
	case "add":
		if live {
			return Exists
		}
	case "replace":
		if !live {
			return NotFound
		}
	}
	d, gone := m.deadline(ttl)
	if gone {
		delete(m.M, k)
	} else {
		m.M[k] = Entry{Val: v, Flags: flags, Deadline: d}
	}
	return OK
}

// Concat performs append/prepend.
func (m *Model) Concat(kind, k, v string) string {
	e, live := m.Live(k)
	if !live {
		return NotStored
	}
	if kind == "append" {
		e.Val += v
	} else {
		e.Val = v + e.Val
	}
	m.M[k] = e
	return OK
}

// Delete removes a key.
func (m *Model) Delete(k string) string {
	if _, live := m.Live(k); !live {
		return NotFound
	}
	delete(m.M, k)
	return OK
}

// Touch sets a new expiry.
func (m *Model) Touch(k string, ttl uint32) string {
	e, live := m.Live(k)
	if !live {
		return NotFound
	}
	d, gone := m.deadline(ttl)
	if gone {
		delete(m.M, k)
	} else {
		e.Deadline = d
		m.M[k] = e
	}
	return OK
}

// Get reads a key.
func (m *Model) Get(k string) (Entry, bool) { return m.Live(k) }

// Gat reads a key and sets a new expiry.
func (m *Model) Gat(k string, ttl uint32) (Entry, bool) {
	e, live := m.Live(k)
	if !live {
		return Entry{}, false
	}
	m.Touch(k, ttl)
	return e, true
}

// Advance moves the clock.
func (m *Model) Advance(sec uint32) { m.Now += sec }

// Dump renders live contents canonically with deadlines relative to now.
func (m *Model) Dump() string {
	ks := make([]string, 0, len(m.M))
	for k := range m.M {
		if _, ok := m.Live(k); ok {
			ks = append(ks, k)
		}
	}
	sort.Strings(ks)
	out := ""
	for _, k := range ks {
		e := m.M[k]
		rel := int64(-1)
		if e.Deadline != 0 {
			rel = int64(e.Deadline) - int64(m.Now)
		}
		out += fmt.Sprintf("%q=%q/%x/%d;", k, e.Val, e.Flags, rel)
	}
	return out
}
