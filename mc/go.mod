module verif

go 1.26.8

require (
	github.com/anishathalye/porcupine v1.3.0
	github.com/netflix/rend v0.0.0
)

replace github.com/netflix/rend => /repo
