module verif

go 1.26.8

require (
	github.com/anishathalye/porcupine v1.3.0
	github.com/netflix/rend v0.0.0
)

require (
	github.com/aerospike/aerospike-client-go v3.1.0+incompatible // indirect
	github.com/armon/go-metrics v0.0.0-20180917152333-f0300d1749da // indirect
	github.com/fatih/color v1.9.0 // indirect
	github.com/golang/snappy v0.0.0-20170215233205-553a64147049 // indirect
	github.com/google/uuid v1.1.1 // indirect
	github.com/hashicorp/consul/api v1.4.0 // indirect
	github.com/hashicorp/go-cleanhttp v0.5.1 // indirect
	github.com/hashicorp/go-hclog v0.12.0 // indirect
	github.com/hashicorp/go-immutable-radix v1.0.0 // indirect
	github.com/hashicorp/go-rootcerts v1.0.2 // indirect
	github.com/hashicorp/golang-lru v0.5.0 // indirect
	github.com/hashicorp/serf v0.8.2 // indirect
	github.com/mattn/go-colorable v0.1.4 // indirect
	github.com/mattn/go-isatty v0.0.12 // indirect
	github.com/mitchellh/mapstructure v1.1.2 // indirect
	github.com/opentracing/opentracing-go v1.1.0 // indirect
	github.com/yuin/gopher-lua v0.0.0-20200816102855-ee81675732da // indirect
	golang.org/x/net v0.0.0-20190522155817-f3200d17e092 // indirect
	golang.org/x/sync v0.0.0-20181221193216-37e7f081c4d4 // indirect
	golang.org/x/sys v0.0.0-20200124204421-9fbb57f87de9 // indirect
	golang.org/x/text v0.3.0 // indirect
	gopkg.in/couchbase/gocb.v1 v1.6.7 // indirect
	gopkg.in/couchbase/gocbcore.v7 v7.1.17 // indirect
	gopkg.in/couchbaselabs/gocbconnstr.v1 v1.0.4 // indirect
	gopkg.in/couchbaselabs/jsonx.v1 v1.0.0 // indirect
)

replace github.com/netflix/rend => /repo
