// Package vsignal stands in for "os/signal" in the copy of rend's main programs that the
// verification harness drives: no signal is ever delivered.
package vsignal

import "os"

func Notify(c chan<- os.Signal, sig ...os.Signal) {}
func Stop(c chan<- os.Signal)                     {}
func Ignore(sig ...os.Signal)                     {}
func Reset(sig ...os.Signal)                      {}
