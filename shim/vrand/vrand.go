// Package vrand stands in for "math/rand" in the batching pool's sources when compiled for the
// verification harness. Without a hook it forwards to math/rand.
package vrand

import (
	"math/rand"
	"sync/atomic"
)

type Source = rand.Source

// Rand mirrors the part of *rand.Rand the pool uses.
type Rand struct {
	r  *rand.Rand
	ID int
}

var nextID int64

// IntnHook, when set, decides Intn results (r identifies the generator: generators are numbered
// in creation order). Int31Hook likewise.
var (
	IntnHook  func(r *Rand, n int) int
	Int31Hook func(r *Rand) int32
)

// Small, when set by the harness, makes NewSource hand out an 8-byte generator instead of
// math/rand's 4.9 KiB one: every pooled connection owns two generators, and the pool's goroutines
// (with everything they reference) stay parked for ever after each of the harness's executions.
var Small bool

type smallSource struct{ s uint64 }

func (x *smallSource) Seed(seed int64) { x.s = uint64(seed) }
func (x *smallSource) Uint64() uint64 {
	x.s += 0x9e3779b97f4a7c15
	z := x.s
	z = (z ^ (z >> 30)) * 0xbf58476d1ce4e5b9
	z = (z ^ (z >> 27)) * 0x94d049bb133111eb
	return z ^ (z >> 31)
}
func (x *smallSource) Int63() int64 { return int64(x.Uint64() >> 1) }

func NewSource(seed int64) Source {
	if Small {
		return &smallSource{s: uint64(seed)}
	}
	return rand.NewSource(seed)
}

func New(src Source) *Rand {
	return &Rand{r: rand.New(src), ID: int(atomic.AddInt64(&nextID, 1))}
}

func (r *Rand) Intn(n int) int {
	if n <= 0 {
		panic("invalid argument to Intn")
	}
	if h := IntnHook; h != nil {
		return h(r, n)
	}
	return r.r.Intn(n)
}

func (r *Rand) Int31() int32 {
	if h := Int31Hook; h != nil {
		return h(r)
	}
	return r.r.Int31()
}

func (r *Rand) Int63() int64                       { return r.r.Int63() }
func (r *Rand) Uint32() uint32                     { return r.r.Uint32() }
func (r *Rand) Uint64() uint64                     { return r.r.Uint64() }
func (r *Rand) Int() int                           { return r.r.Int() }
func (r *Rand) Float64() float64                   { return r.r.Float64() }
func (r *Rand) Float32() float32                   { return r.r.Float32() }
func (r *Rand) Seed(s int64)                       { r.r.Seed(s) }
func (r *Rand) Perm(n int) []int                   { return r.r.Perm(n) }
func (r *Rand) Shuffle(n int, swap func(i, j int)) { r.r.Shuffle(n, swap) }
func (r *Rand) NormFloat64() float64               { return r.r.NormFloat64() }
func (r *Rand) ExpFloat64() float64                { return r.r.ExpFloat64() }
func (r *Rand) Read(p []byte) (int, error)         { return r.r.Read(p) }

// bounded draws validate their argument exactly as math/rand does and then go through IntnHook
func (r *Rand) Int63n(n int64) int64 {
	if n <= 0 {
		panic("invalid argument to Int63n")
	}
	if h := IntnHook; h != nil {
		m := n
		if m > 1<<31-1 {
			m = 1<<31 - 1
		}
		return int64(h(r, int(m)))
	}
	return r.r.Int63n(n)
}

func (r *Rand) Int31n(n int32) int32 {
	if n <= 0 {
		panic("invalid argument to Int31n")
	}
	if h := IntnHook; h != nil {
		return int32(h(r, int(n)))
	}
	return r.r.Int31n(n)
}

// package-level generator
var global = New(NewSource(1))

func Seed(s int64)                       { global.Seed(s) }
func Intn(n int) int                     { return global.Intn(n) }
func Int() int                           { return global.Int() }
func Int31() int32                       { return global.Int31() }
func Int31n(n int32) int32               { return global.Int31n(n) }
func Int63() int64                       { return global.Int63() }
func Int63n(n int64) int64               { return global.Int63n(n) }
func Uint32() uint32                     { return global.Uint32() }
func Uint64() uint64                     { return global.Uint64() }
func Float64() float64                   { return global.Float64() }
func Float32() float32                   { return global.Float32() }
func Perm(n int) []int                   { return global.Perm(n) }
func Shuffle(n int, swap func(i, j int)) { global.Shuffle(n, swap) }
