// Package vrand stands in for "math/rand" in the batching pool's sources when compiled for the
// verification harness. Without a hook it forwards to math/rand.
package vrand

import (
	"math/rand"
	"sync/atomic"
)

type Source = rand.Source

// Rand mirrors the part of *rand.Rand the pool uses.
type Rand struct {
	r  *rand.Rand
	ID int
}

var nextID int64

// IntnHook, when set, decides Intn results (r identifies the generator: generators are numbered
// in creation order). Int31Hook likewise.
var (
	IntnHook  func(r *Rand, n int) int
	Int31Hook func(r *Rand) int32
)

func NewSource(seed int64) Source { return rand.NewSource(seed) }

func New(src Source) *Rand {
	return &Rand{r: rand.New(src), ID: int(atomic.AddInt64(&nextID, 1))}
}

func (r *Rand) Intn(n int) int {
	if h := IntnHook; h != nil {
		return h(r, n)
	}
	return r.r.Intn(n)
}

func (r *Rand) Int31() int32 {
	if h := Int31Hook; h != nil {
		return h(r)
	}
	return r.r.Int31()
}

func (r *Rand) Int63() int64     { return r.r.Int63() }
func (r *Rand) Uint32() uint32   { return r.r.Uint32() }
func (r *Rand) Int() int         { return r.r.Int() }
func (r *Rand) Float64() float64 { return r.r.Float64() }
