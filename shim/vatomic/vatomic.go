// Package vatomic stands in for "sync/atomic" in selected rend source files when compiled for the
// verification harness. Without a hook it forwards to sync/atomic; with a hook every atomic
// operation is a scheduling point of the harness's cooperative scheduler.
package vatomic

import "sync/atomic"

// H, when set, is called before every atomic operation with the operation name and the address.
var H func(op string, addr interface{})

type (
	Value   = atomic.Value
	Bool    = atomic.Bool
	Int32   = atomic.Int32
	Int64   = atomic.Int64
	Uint32  = atomic.Uint32
	Uint64  = atomic.Uint64
	Uintptr = atomic.Uintptr
)

func hook(op string, addr interface{}) {
	if h := H; h != nil {
		h(op, addr)
	}
}

func AddUint32(addr *uint32, delta uint32) uint32 {
	hook("add32", addr)
	return atomic.AddUint32(addr, delta)
}
func AddUint64(addr *uint64, delta uint64) uint64 {
	hook("add64", addr)
	return atomic.AddUint64(addr, delta)
}
func AddInt32(addr *int32, delta int32) int32 {
	hook("add32", addr)
	return atomic.AddInt32(addr, delta)
}
func AddInt64(addr *int64, delta int64) int64 {
	hook("add64", addr)
	return atomic.AddInt64(addr, delta)
}
func LoadUint32(addr *uint32) uint32     { hook("load32", addr); return atomic.LoadUint32(addr) }
func LoadUint64(addr *uint64) uint64     { hook("load64", addr); return atomic.LoadUint64(addr) }
func LoadInt32(addr *int32) int32        { hook("load32", addr); return atomic.LoadInt32(addr) }
func LoadInt64(addr *int64) int64        { hook("load64", addr); return atomic.LoadInt64(addr) }
func StoreUint32(addr *uint32, v uint32) { hook("store32", addr); atomic.StoreUint32(addr, v) }
func StoreUint64(addr *uint64, v uint64) { hook("store64", addr); atomic.StoreUint64(addr, v) }
func StoreInt32(addr *int32, v int32)    { hook("store32", addr); atomic.StoreInt32(addr, v) }
func StoreInt64(addr *int64, v int64)    { hook("store64", addr); atomic.StoreInt64(addr, v) }
func SwapUint32(addr *uint32, v uint32) uint32 {
	hook("swap32", addr)
	return atomic.SwapUint32(addr, v)
}
func SwapUint64(addr *uint64, v uint64) uint64 {
	hook("swap64", addr)
	return atomic.SwapUint64(addr, v)
}
func CompareAndSwapUint32(addr *uint32, o, n uint32) bool {
	hook("cas32", addr)
	return atomic.CompareAndSwapUint32(addr, o, n)
}
func CompareAndSwapUint64(addr *uint64, o, n uint64) bool {
	hook("cas64", addr)
	return atomic.CompareAndSwapUint64(addr, o, n)
}
func CompareAndSwapInt32(addr *int32, o, n int32) bool {
	hook("cas32", addr)
	return atomic.CompareAndSwapInt32(addr, o, n)
}
func CompareAndSwapInt64(addr *int64, o, n int64) bool {
	hook("cas64", addr)
	return atomic.CompareAndSwapInt64(addr, o, n)
}
