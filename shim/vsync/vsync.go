// Package vsync stands in for "sync" in selected rend source files when they are compiled for
// the verification harness (go build -overlay; nothing is changed in the repository). Without
// hooks installed every type behaves exactly like its sync counterpart. With hooks the harness's
// cooperative scheduler sees every lock acquisition and every pool Get/Put.
package vsync

import (
	"fmt"
	"reflect"
	"runtime"
	"strings"
	"sync"
	"unsafe"
)

// Hooks is implemented by the harness.
type Hooks interface {
	// Acquire is called before the real lock is taken; it may park the caller until the lock
	// is available in the harness's model. write=false means a read lock.
	Acquire(m interface{}, write bool)
	// Acquired is called right after the real lock was taken.
	Acquired(m interface{}, write bool)
	// Release is called right before the real lock is released.
	Release(m interface{}, write bool)
	// PoolGet / PoolPut are called before the operation; returning true from PoolGet/PoolPut
	// means the harness took the operation over (deterministic shared LIFO pool).
	PoolGet(p *Pool) (interface{}, bool)
	PoolPut(p *Pool, x interface{}) bool
}

// H is the installed hook set (nil = pass-through).
var H Hooks

type (
	Locker = sync.Locker
	Once   = sync.Once
	Cond   = sync.Cond
	Map    = sync.Map
)

// WaitGroup mirrors sync.WaitGroup. WaitHook, when set and returning true, has taken a Wait over
// (the harness ends a main goroutine that would otherwise wait for ever).
type WaitGroup struct{ sync.WaitGroup }

var WaitHook func() bool

func (w *WaitGroup) Wait() {
	if h := WaitHook; h != nil && h() {
		return
	}
	w.WaitGroup.Wait()
}

func NewCond(l Locker) *Cond { return sync.NewCond(l) }

// Mutex mirrors sync.Mutex.
type Mutex struct{ mu sync.Mutex }

func (m *Mutex) Lock() {
	if h := H; h != nil {
		h.Acquire(m, true)
		m.mu.Lock()
		h.Acquired(m, true)
		return
	}
	m.mu.Lock()
}

func (m *Mutex) Unlock() {
	if h := H; h != nil {
		h.Release(m, true)
	}
	m.mu.Unlock()
}

func (m *Mutex) TryLock() bool { return m.mu.TryLock() }

// RWMutex mirrors sync.RWMutex.
type RWMutex struct{ mu sync.RWMutex }

func (m *RWMutex) Lock() {
	if h := H; h != nil {
		h.Acquire(m, true)
		m.mu.Lock()
		h.Acquired(m, true)
		return
	}
	m.mu.Lock()
}

func (m *RWMutex) Unlock() {
	if h := H; h != nil {
		h.Release(m, true)
	}
	m.mu.Unlock()
}

func (m *RWMutex) RLock() {
	if h := H; h != nil {
		h.Acquire(m, false)
		m.mu.RLock()
		h.Acquired(m, false)
		return
	}
	m.mu.RLock()
}

func (m *RWMutex) RUnlock() {
	if h := H; h != nil {
		h.Release(m, false)
	}
	m.mu.RUnlock()
}

func (m *RWMutex) TryLock() bool  { return m.mu.TryLock() }
func (m *RWMutex) TryRLock() bool { return m.mu.TryRLock() }

type rlocker RWMutex

func (r *rlocker) Lock()   { (*RWMutex)(r).RLock() }
func (r *rlocker) Unlock() { (*RWMutex)(r).RUnlock() }

// RLocker mirrors (*sync.RWMutex).RLocker.
func (m *RWMutex) RLocker() Locker { return (*rlocker)(m) }

// Pool mirrors sync.Pool.
type Pool struct {
	New  func() interface{}
	real sync.Pool

	tmu   sync.Mutex
	in    map[interface{}]bool   // objects currently sitting in the pool (Track only)
	saved map[interface{}][]byte // their original bytes while they are scribbled over
}

// Track makes every Pool remember which pointers it currently holds; putting a pointer that is
// already in the pool (so that two later Gets hand the same object to two users) is logged.
var Track bool

var (
	dpMu  sync.Mutex
	dpLog []string
)

// TakeDoublePuts returns and clears the log of objects put into a pool they were already in.
func TakeDoublePuts() []string {
	dpMu.Lock()
	defer dpMu.Unlock()
	out := dpLog
	dpLog = nil
	return out
}

// Scribble makes every Pool overwrite the memory of an object for as long as it sits in the pool
// (byte slices, pointers to byte slices, pointers to structs without pointers: scratch buffers and
// protocol headers) and put the original bytes back when the object is handed out again. Code
// that keeps using an object after returning it to its pool then reads garbage at once, whatever
// the schedule; code that (legitimately) relies on getting back what it put is not disturbed.
var Scribble bool

// DropPuts makes every Put discard its object, so that every Get builds a new one: sync.Pool may
// drop its contents at any garbage collection, and nothing may depend on which object comes back.
var DropPuts bool

func pointerFree(t reflect.Type) bool {
	switch t.Kind() {
	case reflect.Bool, reflect.Int, reflect.Int8, reflect.Int16, reflect.Int32, reflect.Int64, reflect.Uint, reflect.Uint8, reflect.Uint16, reflect.Uint32, reflect.Uint64,
		reflect.Uintptr, reflect.Float32, reflect.Float64, reflect.Complex64, reflect.Complex128:
		return true
	case reflect.Array:
		return pointerFree(t.Elem())
	case reflect.Struct:
		for i := 0; i < t.NumField(); i++ {
			if !pointerFree(t.Field(i).Type) {
				return false
			}
		}
		return true
	}
	return false
}

// bytesOf returns the memory of x that may be scribbled over (nil: none).
func bytesOf(x interface{}) []byte {
	v := reflect.ValueOf(x)
	switch v.Kind() {
	case reflect.Slice:
		if v.Type().Elem().Kind() == reflect.Uint8 {
			b := v.Bytes()
			return b[:cap(b)]
		}
	case reflect.Ptr:
		if v.IsNil() {
			return nil
		}
		e := v.Elem()
		if e.Kind() == reflect.Slice && e.Type().Elem().Kind() == reflect.Uint8 {
			b := e.Bytes()
			return b[:cap(b)]
		}
		if e.Kind() == reflect.Struct && pointerFree(e.Type()) && e.Type().Size() > 0 {
			n := int(e.Type().Size())
			return (*[1 << 30]byte)(unsafe.Pointer(v.Pointer()))[:n:n]
		}
	}
	return nil
}

func poolKey(x interface{}) (interface{}, bool) {
	if x == nil {
		return nil, false
	}
	v := reflect.ValueOf(x)
	switch v.Kind() {
	case reflect.Ptr:
		return x, true
	case reflect.Slice:
		if v.Cap() == 0 {
			return nil, false
		}
		// (an unsafe.Pointer, not a uintptr: the entry keeps the buffer alive, so its address cannot
		// be handed to a new buffer while the entry exists)
		return unsafe.Pointer(v.Pointer()), true
	}
	return nil, false
}

func (p *Pool) trackPut(x interface{}) {
	if !Track {
		return
	}
	k, ok := poolKey(x)
	if !ok {
		return
	}
	p.tmu.Lock()
	dup := p.in[k]
	if p.in == nil {
		p.in = map[interface{}]bool{}
	}
	p.in[k] = true
	if Scribble && !dup {
		if b := bytesOf(x); len(b) > 0 {
			if p.saved == nil {
				p.saved = map[interface{}][]byte{}
			}
			p.saved[k] = append([]byte(nil), b...)
			for i := range b {
				b[i] = 0xDB
			}
		}
	}
	p.tmu.Unlock()
	if dup {
		var fr []string
		pcs := make([]uintptr, 12)
		n := runtime.Callers(3, pcs)
		frames := runtime.CallersFrames(pcs[:n])
		for {
			f, more := frames.Next()
			if i := strings.Index(f.Function, "netflix/rend/"); i >= 0 && !strings.Contains(f.Function, "verifshim") {
				fr = append(fr, f.Function[i+len("netflix/rend/"):])
			}
			if !more {
				break
			}
		}
		dpMu.Lock()
		if len(dpLog) < 64 {
			dpLog = append(dpLog, fmt.Sprintf("%T put by %s", x, strings.Join(fr, " < ")))
		}
		dpMu.Unlock()
	}
}

func (p *Pool) trackGet(x interface{}) interface{} {
	if !Track {
		return x
	}
	if k, ok := poolKey(x); ok {
		p.tmu.Lock()
		delete(p.in, k)
		if sv, ok := p.saved[k]; ok {
			copy(bytesOf(x), sv)
			delete(p.saved, k)
		}
		p.tmu.Unlock()
	}
	return x
}

func (p *Pool) Get() interface{} {
	if h := H; h != nil {
		if x, ok := h.PoolGet(p); ok {
			if x == nil && p.New != nil {
				return p.New()
			}
			return p.trackGet(x)
		}
	}
	if x := p.real.Get(); x != nil {
		return p.trackGet(x)
	}
	if p.New != nil {
		return p.New()
	}
	return nil
}

func (p *Pool) Put(x interface{}) {
	if DropPuts {
		return
	}
	p.trackPut(x)
	if h := H; h != nil {
		if h.PoolPut(p, x) {
			return
		}
	}
	p.real.Put(x)
}
