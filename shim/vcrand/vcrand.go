// Package vcrand stands in for "crypto/rand" in the batching pool's sources when compiled for the
// verification harness (seeds become deterministic when Deterministic is set).
package vcrand

import (
	"crypto/rand"
	"sync/atomic"
)

var (
	Deterministic bool
	counter       uint32
)

func Read(b []byte) (int, error) {
	if Deterministic {
		for i := range b {
			b[i] = byte(atomic.AddUint32(&counter, 1))
		}
		return len(b), nil
	}
	return rand.Read(b)
}
