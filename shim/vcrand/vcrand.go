// Package vcrand stands in for "crypto/rand" in the batching pool's sources when compiled for the
// verification harness (seeds become deterministic when Deterministic is set).
package vcrand

import "crypto/rand"

var (
	Deterministic bool
	counter       byte
)

func Read(b []byte) (int, error) {
	if Deterministic {
		for i := range b {
			counter++
			b[i] = counter
		}
		return len(b), nil
	}
	return rand.Read(b)
}
