// Package vyield provides the yield points the verification overlay injects into the batching
// pool's sources (before statements that touch the connection / its buffers). Without a hook a
// yield is a no-op.
package vyield

// Hook, when set, is called at every injected yield with "<function>:<line>"; it may park the
// calling goroutine until the explorer resumes it.
var Hook func(label string)

func Point(label string) {
	if h := Hook; h != nil {
		h(label)
	}
}
