// Package vnet stands in for "net" in the batching pool's sources when compiled for the
// verification harness: Dial can be redirected to in-memory connections.
package vnet

import "net"

type (
	Conn     = net.Conn
	Addr     = net.Addr
	Listener = net.Listener
	Error    = net.Error
	OpError  = net.OpError
)

// DialHook, when set, replaces net.Dial.
var DialHook func(network, address string) (net.Conn, error)

func Dial(network, address string) (net.Conn, error) {
	if h := DialHook; h != nil {
		return h(network, address)
	}
	return net.Dial(network, address)
}
