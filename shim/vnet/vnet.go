// Package vnet stands in for "net" in selected rend sources (the batching pool, the cluster
// handler, the handler constructors and the listeners of server/listen.go) when they are compiled
// for the verification harness: Dial and Listen can be redirected to in-memory connections.
package vnet

import (
	"net"
	"time"
)

type (
	Conn       = net.Conn
	Addr       = net.Addr
	Listener   = net.Listener
	Error      = net.Error
	OpError    = net.OpError
	TCPAddr    = net.TCPAddr
	UnixAddr   = net.UnixAddr
	IP         = net.IP
	UnixConn   = net.UnixConn
	AddrError  = net.AddrError
	PacketConn = net.PacketConn
)

var ErrClosed = net.ErrClosed

// DialHook, when set, replaces net.Dial.
var DialHook func(network, address string) (net.Conn, error)

func Dial(network, address string) (net.Conn, error) {
	if h := DialHook; h != nil {
		return h(network, address)
	}
	return net.Dial(network, address)
}

func DialTimeout(network, address string, d time.Duration) (net.Conn, error) {
	if h := DialHook; h != nil {
		return h(network, address)
	}
	return net.DialTimeout(network, address, d)
}

// ListenHook, when set, replaces net.Listen.
var ListenHook func(network, address string) (net.Listener, error)

func Listen(network, address string) (net.Listener, error) {
	if h := ListenHook; h != nil {
		return h(network, address)
	}
	return net.Listen(network, address)
}

// TCPConn is what a hooked "tcp" listener hands out: an in-memory connection with the socket
// options of a *net.TCPConn (all of them no-ops).
type TCPConn struct{ net.Conn }

func (c *TCPConn) SetKeepAlive(bool) error                { return nil }
func (c *TCPConn) SetKeepAlivePeriod(time.Duration) error { return nil }
func (c *TCPConn) SetNoDelay(bool) error                  { return nil }
func (c *TCPConn) SetLinger(int) error                    { return nil }
func (c *TCPConn) SetReadBuffer(int) error                { return nil }
func (c *TCPConn) SetWriteBuffer(int) error               { return nil }
func (c *TCPConn) CloseRead() error                       { return nil }
func (c *TCPConn) CloseWrite() error {
	if cw, ok := c.Conn.(interface{ CloseWrite() error }); ok {
		return cw.CloseWrite() // (the harness's client connection knows whether its peer is still there)
	}
	return nil
}

func JoinHostPort(host, port string) string              { return net.JoinHostPort(host, port) }
func SplitHostPort(hp string) (string, string, error)    { return net.SplitHostPort(hp) }
func ParseIP(s string) net.IP                            { return net.ParseIP(s) }
func ResolveTCPAddr(n, a string) (*net.TCPAddr, error)   { return net.ResolveTCPAddr(n, a) }
func ResolveUnixAddr(n, a string) (*net.UnixAddr, error) { return net.ResolveUnixAddr(n, a) }
