// Package vhttp stands in for "net/http" in the copy of rend's main programs that the
// verification harness drives: the debug/metrics endpoint is not started.
package vhttp

import (
	"errors"
	"net/http"
)

type (
	Handler        = http.Handler
	HandlerFunc    = http.HandlerFunc
	ResponseWriter = http.ResponseWriter
	Request        = http.Request
	ServeMux       = http.ServeMux
	Server         = http.Server
)

// Listens counts the calls, so that the harness can see the endpoint was asked for.
var Listens int

func ListenAndServe(addr string, h http.Handler) error {
	Listens++
	return errors.New("vhttp: the debug endpoint is not started under the verification harness")
}

func Handle(pattern string, h http.Handler) { http.Handle(pattern, h) }
func HandleFunc(pattern string, f func(http.ResponseWriter, *http.Request)) {
	http.HandleFunc(pattern, f)
}
