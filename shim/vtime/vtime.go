// Package vtime stands in for "time" in rend's sources when they are compiled for the
// verification harness. Everything forwards to package time (whose clock is virtual inside a
// testing/synctest bubble); the only addition is a count of timers that are armed, so that the
// explorer knows when "let time pass" is an event that can change anything.
package vtime

import (
	"sync/atomic"
	"time"
)

type (
	Duration   = time.Duration
	Time       = time.Time
	Month      = time.Month
	Weekday    = time.Weekday
	Location   = time.Location
	ParseError = time.ParseError
)

const (
	Nanosecond  = time.Nanosecond
	Microsecond = time.Microsecond
	Millisecond = time.Millisecond
	Second      = time.Second
	Minute      = time.Minute
	Hour        = time.Hour

	Layout      = time.Layout
	ANSIC       = time.ANSIC
	UnixDate    = time.UnixDate
	RubyDate    = time.RubyDate
	RFC822      = time.RFC822
	RFC822Z     = time.RFC822Z
	RFC850      = time.RFC850
	RFC1123     = time.RFC1123
	RFC1123Z    = time.RFC1123Z
	RFC3339     = time.RFC3339
	RFC3339Nano = time.RFC3339Nano
	Kitchen     = time.Kitchen
	Stamp       = time.Stamp
	StampMilli  = time.StampMilli
	StampMicro  = time.StampMicro
	StampNano   = time.StampNano
	DateTime    = time.DateTime
	DateOnly    = time.DateOnly
	TimeOnly    = time.TimeOnly

	January   = time.January
	February  = time.February
	March     = time.March
	April     = time.April
	May       = time.May
	June      = time.June
	July      = time.July
	August    = time.August
	September = time.September
	October   = time.October
	November  = time.November
	December  = time.December

	Sunday    = time.Sunday
	Monday    = time.Monday
	Tuesday   = time.Tuesday
	Wednesday = time.Wednesday
	Thursday  = time.Thursday
	Friday    = time.Friday
	Saturday  = time.Saturday
)

var (
	UTC   = time.UTC
	Local = time.Local
)

func Now() Time                                   { return time.Now() }
func Since(t Time) Duration                       { return time.Since(t) }
func Until(t Time) Duration                       { return time.Until(t) }
func Unix(sec, nsec int64) Time                   { return time.Unix(sec, nsec) }
func UnixMilli(ms int64) Time                     { return time.UnixMilli(ms) }
func UnixMicro(us int64) Time                     { return time.UnixMicro(us) }
func Parse(layout, value string) (Time, error)    { return time.Parse(layout, value) }
func ParseDuration(s string) (Duration, error)    { return time.ParseDuration(s) }
func LoadLocation(name string) (*Location, error) { return time.LoadLocation(name) }
func FixedZone(name string, offset int) *Location { return time.FixedZone(name, offset) }
func ParseInLocation(l, v string, loc *Location) (Time, error) {
	return time.ParseInLocation(l, v, loc)
}
func Date(year int, month Month, day, hour, min, sec, nsec int, loc *Location) Time {
	return time.Date(year, month, day, hour, min, sec, nsec, loc)
}

// armed counts timers, tickers and sleeps that have been started and have neither fired nor been
// stopped.
var armed int64

// Pending reports whether anything is waiting for time to pass.
func Pending() bool { return atomic.LoadInt64(&armed) > 0 }

// ResetPending forgets timers left behind by an earlier execution.
func ResetPending() { atomic.StoreInt64(&armed, 0) }

func Sleep(d Duration) {
	atomic.AddInt64(&armed, 1)
	time.Sleep(d)
	atomic.AddInt64(&armed, -1)
}

// Timer mirrors time.Timer.
type Timer struct {
	C    <-chan Time
	t    *time.Timer
	live int32
}

func (t *Timer) disarm() {
	if atomic.CompareAndSwapInt32(&t.live, 1, 0) {
		atomic.AddInt64(&armed, -1)
	}
}

func (t *Timer) arm() {
	if atomic.CompareAndSwapInt32(&t.live, 0, 1) {
		atomic.AddInt64(&armed, 1)
	}
}

func NewTimer(d Duration) *Timer {
	c := make(chan Time, 1)
	t := &Timer{C: c}
	t.arm()
	t.t = time.AfterFunc(d, func() {
		t.disarm()
		select {
		case c <- time.Now():
		default:
		}
	})
	return t
}

func AfterFunc(d Duration, f func()) *Timer {
	t := &Timer{}
	t.arm()
	t.t = time.AfterFunc(d, func() {
		t.disarm()
		f()
	})
	return t
}

func (t *Timer) Stop() bool {
	t.disarm()
	return t.t.Stop()
}

func (t *Timer) Reset(d Duration) bool {
	t.arm()
	return t.t.Reset(d)
}

func After(d Duration) <-chan Time { return NewTimer(d).C }

// Ticker mirrors time.Ticker; an unstopped ticker is always pending.
type Ticker struct {
	C    <-chan Time
	t    *time.Ticker
	live int32
}

func NewTicker(d Duration) *Ticker {
	tk := time.NewTicker(d)
	atomic.AddInt64(&armed, 1)
	return &Ticker{C: tk.C, t: tk, live: 1}
}

func (t *Ticker) Stop() {
	if atomic.CompareAndSwapInt32(&t.live, 1, 0) {
		atomic.AddInt64(&armed, -1)
	}
	t.t.Stop()
}

func (t *Ticker) Reset(d Duration) { t.t.Reset(d) }

func Tick(d Duration) <-chan Time { return NewTicker(d).C }
