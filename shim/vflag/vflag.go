// Package vflag stands in for "flag" in the copy of rend's main programs that the verification
// harness drives: the command line is whatever the harness set with Reset, and the flag set is a
// fresh one every time, so the programs' init functions can be run once per deployment.
package vflag

import (
	"flag"
	"io"
	"time"
)

var (
	set  = flag.NewFlagSet("rend", flag.ContinueOnError)
	args []string
)

type (
	Value   = flag.Value
	Flag    = flag.Flag
	FlagSet = flag.FlagSet
	Getter  = flag.Getter
)

var ErrHelp = flag.ErrHelp

// Reset starts a new, empty flag set that Parse will feed with a.
func Reset(a []string) {
	set = flag.NewFlagSet("rend", flag.ContinueOnError)
	set.SetOutput(io.Discard)
	args = a
}

// Err is the result of the last Parse.
var Err error

func Parse()                                                  { Err = set.Parse(args) }
func Parsed() bool                                            { return set.Parsed() }
func Args() []string                                          { return set.Args() }
func NArg() int                                               { return set.NArg() }
func NFlag() int                                              { return set.NFlag() }
func Arg(i int) string                                        { return set.Arg(i) }
func PrintDefaults()                                          {}
func Usage()                                                  {}
func Set(name, value string) error                            { return set.Set(name, value) }
func Lookup(name string) *flag.Flag                           { return set.Lookup(name) }
func Var(v flag.Value, name, usage string)                    { set.Var(v, name, usage) }
func BoolVar(p *bool, name string, v bool, u string)          { set.BoolVar(p, name, v, u) }
func Bool(name string, v bool, u string) *bool                { return set.Bool(name, v, u) }
func IntVar(p *int, name string, v int, u string)             { set.IntVar(p, name, v, u) }
func Int(name string, v int, u string) *int                   { return set.Int(name, v, u) }
func Int64Var(p *int64, name string, v int64, u string)       { set.Int64Var(p, name, v, u) }
func Int64(name string, v int64, u string) *int64             { return set.Int64(name, v, u) }
func UintVar(p *uint, name string, v uint, u string)          { set.UintVar(p, name, v, u) }
func Uint(name string, v uint, u string) *uint                { return set.Uint(name, v, u) }
func Uint64Var(p *uint64, name string, v uint64, u string)    { set.Uint64Var(p, name, v, u) }
func Uint64(name string, v uint64, u string) *uint64          { return set.Uint64(name, v, u) }
func StringVar(p *string, name string, v string, u string)    { set.StringVar(p, name, v, u) }
func String(name string, v string, u string) *string          { return set.String(name, v, u) }
func Float64Var(p *float64, name string, v float64, u string) { set.Float64Var(p, name, v, u) }
func Float64(name string, v float64, u string) *float64       { return set.Float64(name, v, u) }
func DurationVar(p *time.Duration, name string, v time.Duration, u string) {
	set.DurationVar(p, name, v, u)
}
func Duration(name string, v time.Duration, u string) *time.Duration { return set.Duration(name, v, u) }
