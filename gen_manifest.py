#!/usr/bin/env python3
"""Regenerates MANIFEST.json from checks.json (the per-check metadata lives there)."""
import json, subprocess
checks = json.load(open('checks.json'))
props = [json.loads(l) for l in open('properties.jsonl')]
hooks = subprocess.run(['git', '-C', '/repo', 'log', '--format=%H %s'], capture_output=True, text=True).stdout.splitlines()
hook_commits = [l.split()[0] for l in hooks if 'verif hook' in l]
m = {
 "version": 1,
 "setup_cmd": "./check --build --race",
 "hooks": {
  "guard": "verif",
  "enable": "go1.26.8 test -c -tags verif -overlay .work/overlay.json ./h (done by ./check on every run, from /repo's working tree)",
  "baseline_off_cmd": "cd /repo && GOFLAGS=-mod=mod go test -json -vet=off -count=1 -timeout 25m ./...",
  "source_commits": hook_commits,
  "add_only": True,
 },
 "engines": [{
  "name": "rend-mc", "path": "/verif/mc",
  "serves_properties": sorted(checks),
  "kind_free_text": "hand-written bounded exhaustive explorer for Go: explicit-state BFS over command histories replayed on the real implementation, stateless schedule DFS under a cooperative scheduler (testing/synctest quiescence), deviation-bounded fault enumeration over a fake memcached; reference-model and differential oracles",
 }],
 "checks": [],
 "not_applicable": [],
 "notes": "All checks are ./check <ID> <tier>; the driver rebuilds the harness from /repo's working tree (build tag verif + generated overlay), shards over 16 worker processes, merges into evidence/<ID>.json and matches violation signatures against known_findings.json.",
}
for p in props:
    cid = p['id']
    if cid in checks and not checks[cid].get('disabled'):
        c = checks[cid]
        m['checks'].append({
         "property_id": cid,
         "quick_cmd": "./check %s quick" % cid,
         "thorough_cmd": "./check %s thorough" % cid,
         "evidence_file": "/verif/evidence/%s.json" % cid,
         "replay_cmd_template": "./check %s --replay {path}" % cid,
         "engine": "rend-mc",
         "level_claimed": {"category": c['level'], "text": c.get('level_text', c['rule']), "design_ref": "DESIGN.md section 2, " + cid},
         "level_note": "; ".join(c.get('assumptions', [])) or "fakemc and the reference model are trusted",
         "technique": c.get('technique', 'bounded exhaustive exploration of the implementation (model checking)'),
        })
    else:
        m['not_applicable'].append({"property_id": cid, "reason": (checks.get(cid, {}).get('disabled') or "check not built yet in this session (work in progress); no claim is made")})
json.dump(m, open('MANIFEST.json', 'w'), indent=1)
print(len(m['checks']), 'checks;', len(m['not_applicable']), 'not applicable')
