#!/bin/bash
# Runs every check's thorough tier on snapshots (vp run --with-repo -- tools/thorough_all.sh [ids...]):
# the snapshot of /verif it is started in and the snapshot of /repo in $VP_RUN_REPO. Nothing it
# writes is evidence; it exists to learn, without blocking the working copies, whether the thorough
# tiers are silent on the unchanged tree and how long they take.
set -u
cd "$(dirname "$0")/.."
[ -n "${VP_RUN_REPO:-}" ] && export VERIF_REPO=$VP_RUN_REPO
ids="$*"
[ -z "$ids" ] && ids="C01 C02 C03 C04 C05 C06 C07 C08 C09 C10 C11 C12 C13 C14 C15 C16 C17 C18 C19"
for c in $ids; do
  ./check $c thorough 2>&1 | grep -E "^(VIOLATION|KNOWN-FINDING|  signature|  what|C.. thorough)" | cut -c1-400
done
echo ALL-DONE
